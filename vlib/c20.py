"""C20 - the command-line tool's exit status and outputs tell the truth."""
import os, shutil, subprocess
from concurrent.futures import ThreadPoolExecutor
from . import common as C
from . import c01
from . import c18


def runcli(cli, args, cwd=None, timeout=120):
    try:
        p = subprocess.run([cli] + args, capture_output=True, cwd=cwd, timeout=timeout)
        return p.returncode, p.stdout.decode("utf-8", "replace"), p.stderr.decode("utf-8", "replace")
    except subprocess.TimeoutExpired:
        return -999, "", "TIMEOUT"


def tree(root):
    out = {}
    for d, _, fs in os.walk(root):
        for f in fs:
            p = os.path.join(d, f)
            out[os.path.relpath(p, root)] = open(p, "rb").read()
    return out


def run(tier, seed, replay=None):
    res = C.Result("C20", tier, seed)
    res.rule = ("the warcraft-rs binary built from the working tree: (A) mpq create (v1..v4 x none/zlib/bzip2/lzma x listfile) then mpq extract (all / explicit names incl. missing ones, "
                "threads, preserve-paths, skip-errors; into an empty directory or over stale files of the same length): files on disk must equal the inputs and the exit status and file set must equal the model's outcome computed from the "
                "library's answers; (B) mpq extract / validate on archives with hostile names and with files that no longer read: exit status, error count and written files against "
                "the model; mpq list / info against Archive::list / get_info; (C) every sub-command of every format family that takes an input file, on empty, random, "
                "truncated and bit-flipped inputs: never exit 0 on garbage that the library rejects, never die by a signal, and an exit status 0 of a converting command means the "
                "output file exists; (E) the converting sub-commands of m2 / skin / anim / wmo / adt / wdt on valid generated files for every target version: exit 0 means a non-empty output file; mpq create with inputs whose archive names collide exits 0 only if every input comes back; non-trivial = a run with a failing or refused entry or a damaged input; distinct = distinct command line and input")
    res.assumptions = ["the decision logic is modelled (Cli/Outcome.v) on top of the library's answers, which are taken from the library itself (Archive::read_file via the harness)",
                       "for the non-MPQ families the rule is behavioural: no model of their parsers is involved here (C13-C18 cover them)"]
    mok, iok = C.standard_builds(res, "C20", ["impl_mpq", "impl_verify", "impl_m2", "impl_wmo", "impl_adt", "impl_wdt"])
    if not (mok and iok):
        return res.finish()
    ok, cli, log = C.build_cli()
    if not ok:
        res.broken.append(("cli-build", {"log": log[-1500:]}))
        return res.finish()
    r = C.rng(seed, "C20")
    big = tier == "thorough"
    base = os.path.join(C.CACHE, "c20")
    shutil.rmtree(base, ignore_errors=True)
    os.makedirs(base)
    im = [C.bin_path("impl_mpq")]
    stats = {"create_extract": 0, "exit0": 0, "exit_nonzero": 0, "garbage_runs": 0, "garbage_exit0": 0}
    # ================================================================= A: create -> extract
    jobsA = []
    for i in range(40 if big else 14):
        d = os.path.join(base, "a%d" % i)
        os.makedirs(d + "/in")
        nfiles = r.choice([1, 2, 5, 12])
        files = {}
        for k in range(nfiles):
            nm = r.choice(["f%d.txt", "Data%d.BIN", "x%d", "sp ace%d.dat", "üñí%d.txt"]) % k
            files[nm] = c01.gen_content(r, r.choice([0, 1, 2, 4]), r.choice([0, 0, 1, 7, 300, 5000, 70000 if big else 9000]))
        if i % 3 == 0:
            files["empty.dat"] = b""
        for nm, dta in files.items():
            with open(os.path.join(d, "in", nm), "wb") as f:
                f.write(dta)
        opts = {"version": r.choice(["v1", "v2", "v3", "v4"]), "compression": r.choice(["none", "zlib", "bzip2", "lzma"]), "listfile": i % 4 != 3}
        ex = {"threads": r.choice([None, 1, 4]), "preserve": r.choice([False, True]), "skip": r.choice([False, False, True]),
              "names": r.choice([None, None, "some", "with-missing"]), "stale": i % 2 == 1}
        jobsA.append((d, files, opts, ex))

    def doA(job):
        d, files, opts, ex = job
        arch = os.path.join(d, "t.mpq")
        args = ["mpq", "create", arch] + [x for nm in files for x in ("-a", os.path.join(d, "in", nm))] + ["--version", opts["version"], "-c", opts["compression"]]
        if opts["listfile"]:
            args.append("--with-listfile")
        rc1, o1, e1 = runcli(cli, args)
        req = None
        if ex["names"] == "some":
            req = sorted(files)[: max(1, len(files) // 2)]
        elif ex["names"] == "with-missing":
            req = sorted(files)[:2] + ["not\\in\\archive.txt"]
        elif not opts["listfile"]:
            req = sorted(files)                 # without a listfile the names are anonymous: ask for them
        xa = ["mpq", "extract", arch, "-o", os.path.join(d, "out")] + (req or [])
        if ex["threads"]:
            xa += ["--threads", str(ex["threads"])]
        if ex["preserve"]:
            xa.append("--preserve-paths")
        if ex["skip"]:
            xa.append("--skip-errors")
        rc2, o2, e2 = (None, "", "")
        if rc1 == 0:
            if ex["stale"]:
                # an earlier extraction left files of the same length but other content at the targets
                os.makedirs(os.path.join(d, "out"), exist_ok=True)
                for nm in (req if req is not None else sorted(files)):
                    if nm in files:
                        with open(os.path.join(d, "out", nm), "wb") as f:
                            f.write(bytes(b ^ 0xff for b in files[nm]))
            rc2, o2, e2 = runcli(cli, xa)
        return rc1, (o1 + e1)[-300:], rc2, (o2 + e2)[-400:], req, tree(os.path.join(d, "out")) if os.path.isdir(os.path.join(d, "out")) else {}, args, xa

    with ThreadPoolExecutor(8) as exr:
        ra = list(exr.map(doA, jobsA))
    # the library's answers for the same requests, then the model's outcome
    ql, mq = [], []
    for (d, files, opts, ex), (rc1, l1, rc2, l2, req, got, args, xa) in zip(jobsA, ra):
        names = req if req is not None else sorted(files) + ["(listfile)"]
        ql.append("readall %s/t.mpq %s" % (d, ",".join(C.hexs(n.encode()) for n in names)))
    qo = C.run_lines(im, ql)
    for (d, files, opts, ex), (rc1, l1, rc2, l2, req, got, args, xa), q in zip(jobsA, ra, qo):
        toks = []
        if " | " in q:
            for it in q.split(" | ")[0].split(","):
                n, v = it.split(">", 1)
                toks.append("%s=%s" % (n, "OK." + v[3:] if v.startswith("OK:") else "FAIL"))
        mq.append("clioutcome %d %d %s" % (ex["preserve"], ex["skip"], ",".join(toks) or "-"))
    mo = C.run_lines([C.MODELRUN], mq)
    for (d, files, opts, ex), (rc1, l1, rc2, l2, req, got, args, xa), m in zip(jobsA, ra, mo):
        stats["create_extract"] += 1
        key = "%s|%s" % (" ".join(a.replace(d, "<d>") for a in args[3:])[-200:], " ".join(a.replace(d, "<d>") for a in xa[3:]))
        res.case(key, nontrivial=ex["names"] == "with-missing")
        case = {"create": " ".join(a.replace(d, "<d>") for a in args)[:600], "extract": " ".join(a.replace(d, "<d>") for a in xa)[:400], "inputs": {k: len(v) for k, v in files.items()},
                "create_exit": rc1, "extract_exit": rc2, "extract_output_tail": l2[-200:]}
        if rc1 != 0:
            res.failing.append(("create-fails", "mpq create fails on readable inputs: " + l1[-100:], case))
            continue
        if rc2 is None or rc2 < 0:
            res.failing.append(("cli-crash", "mpq extract died or timed out", case))
            continue
        stats["exit0" if rc2 == 0 else "exit_nonzero"] += 1
        mt = m.split(" ")
        if len(mt) != 3:
            res.broken.append(("model-run", {"out": m[:200]}))
            continue
        want_exit, nerr, written = mt
        want_files = {}
        if written != "-":
            for it in written.split(","):
                p, v = it.split("=")
                want_files["/".join(bytes.fromhex(c).decode("utf-8", "replace") for c in p.split("/"))] = bytes.fromhex(v) if v != "-" else b""
        if (rc2 == 0) != (want_exit == "0"):
            res.failing.append(("exit-status-untruthful", "mpq extract exits %d but the library's answers give %s error(s) (skip-errors=%s)" % (rc2, int(nerr, 16), ex["skip"]), case))
            continue
        if ex.get("stale"):
            # files that were already there and that the run did not touch are not output of the run
            got = {k: v for k, v in got.items() if k in want_files or k not in files or v != bytes(b ^ 0xff for b in files[k])}
        if got != want_files:
            miss = sorted(set(want_files) - set(got))[:3]
            extra = sorted(set(got) - set(want_files))[:3]
            diff = [k for k in got if k in want_files and got[k] != want_files[k]][:3]
            res.failing.append(("extracted-files-differ", "files on disk differ from the outcome of the library's answers: missing %s, unexpected %s, different %s" % (miss, extra, diff), case))
            continue
        # round trip proper: everything requested and present must equal the input bytes
        if ex["names"] != "with-missing" and rc2 == 0:
            asked = req if req is not None else sorted(files)
            bad = [n for n in asked if got.get(n) != files[n]]
            if bad:
                res.failing.append(("roundtrip-differs", "create -> extract does not give back %r bit-identically" % bad[0], case))
    # ================================================================= B: failing entries, list, info, validate
    hostile = [("ok.txt", b"fine", "0", 0), ("..\\up.txt", b"escape", "0", 0), ("dir\\in.txt", b"inner", "0", 0), ("broken.bin", c01.gen_content(r, 4, 900), "2", 0), ("z.dat", b"z" * 50, "0", 0)]
    bl = ["build %s/h.mpq 1 0 g N 1 0 2 %s" % (base, c01.entries_token(hostile))]
    if C.run_lines(im, bl)[0] != "OK":
        res.broken.append(("setup", {"build": bl[0][:200]}))
        return res.finish()
    # damage the stored data of broken.bin (it carries a checksum): the library must fail to read it
    lay = C.run_lines([C.bin_path("impl_verify")], ["layout %s/h.mpq %s" % (base, C.hexs(b"broken.bin"))])[0]
    pos = int(lay.split("files=")[1].split(":")[1], 16)
    hb = bytearray(open(base + "/h.mpq", "rb").read())
    hb[pos + 9] ^= 0x55
    open(base + "/hd.mpq", "wb").write(bytes(hb))
    names_all = [n for n, _, _, _ in hostile] + ["(listfile)"]
    jobsB = []
    for arch in ("h.mpq", "hd.mpq"):
        for pres in (False, True):
            for skip in (False, True):
                for req in (None, ["ok.txt", "broken.bin"], ["..\\up.txt"], ["ok.txt", "z.dat"], ["ok.txt", "missing.txt"]):
                    jobsB.append((arch, pres, skip, req))
    qlb = ["readall %s/%s %s" % (base, arch, ",".join(C.hexs(n.encode()) for n in (req or names_all))) for arch, pres, skip, req in jobsB]
    qob = C.run_lines(im, qlb)
    mqb = []
    for (arch, pres, skip, req), q in zip(jobsB, qob):
        toks = []
        for it in q.split(" | ")[0].split(","):
            n, v = it.split(">", 1)
            toks.append("%s=%s" % (n, "OK." + v[3:] if v.startswith("OK:") else "FAIL"))
        mqb.append("clioutcome %d %d %s" % (pres, skip, ",".join(toks)))
    mob = C.run_lines([C.MODELRUN], mqb)
    for n, ((arch, pres, skip, req), m) in enumerate(zip(jobsB, mob)):
        out = os.path.join(base, "ob%d" % n)
        xa = ["mpq", "extract", os.path.join(base, arch), "-o", out] + (req or []) + (["--preserve-paths"] if pres else []) + (["--skip-errors"] if skip else [])
        rc, o, e = runcli(cli, xa)
        got = tree(out) if os.path.isdir(out) else {}
        want_exit, nerr, written = m.split(" ")
        want_files = {}
        if written != "-":
            for it in written.split(","):
                p, v = it.split("=")
                want_files["/".join(bytes.fromhex(c).decode() for c in p.split("/"))] = bytes.fromhex(v) if v != "-" else b""
        res.case("B %s %s %s %s" % (arch, pres, skip, req), nontrivial=True)
        case = {"archive": bl[0][:300] + (" ; byte %d of broken.bin's data flipped" % 9 if arch == "hd.mpq" else ""), "command": " ".join(x.replace(base, "<d>") for x in xa), "exit": rc,
                "model_exit": want_exit, "model_errors": int(nerr, 16), "output_tail": (o + e)[-200:]}
        stats["exit0" if rc == 0 else "exit_nonzero"] += 1
        if rc < 0:
            res.failing.append(("cli-crash", "mpq extract died or timed out", case))
        elif (rc == 0) != (want_exit == "0"):
            res.failing.append(("exit-status-untruthful", "mpq extract exits %d although %d requested file(s) were not extracted (skip-errors=%s)" % (rc, int(nerr, 16), skip), case))
        elif got != want_files:
            res.failing.append(("extracted-files-differ", "files on disk %s differ from the model's outcome %s" % (sorted(got)[:6], sorted(want_files)[:6]), case))
        escaped = [p for p in (os.path.join(base, "up.txt"),) if os.path.exists(p)]
        if escaped:
            res.failing.append(("extract-escapes", "a file was written outside the output directory", case))
            os.remove(escaped[0])
    # validate
    for arch in ("h.mpq", "hd.mpq"):
        q = C.run_lines(im, ["readall %s/%s %s" % (base, arch, ",".join(C.hexs(n.encode()) for n in names_all))])[0]
        toks = ["%s=%s" % (it.split(">", 1)[0], "OK" if it.split(">", 1)[1].startswith("OK:") else "FAIL") for it in q.split(" | ")[0].split(",")]
        want = C.run_lines([C.MODELRUN], ["clivalidate " + ",".join(toks)])[0]
        rc, o, e = runcli(cli, ["mpq", "validate", os.path.join(base, arch)])
        res.case("validate " + arch, nontrivial=True)
        if (rc == 0) != (want == "0"):
            res.failing.append(("validate-exit-untruthful", "mpq validate exits %d on an archive in which %d file(s) cannot be read" % (rc, sum(t.endswith("FAIL") for t in toks)),
                                {"archive": arch, "command": "mpq validate", "exit": rc, "output_tail": (o + e)[-200:]}))
    # list / info against the library
    lo = C.run_lines(im, ["list %s/h.mpq" % base])[0]
    libnames = sorted(bytes.fromhex(x.split(":")[0]).decode() for x in lo.split(" ", 1)[1].split(",")) if lo.startswith("OK ") else None
    rc, o, e = runcli(cli, ["mpq", "list", base + "/h.mpq"])
    res.case("list")
    if rc != 0 or libnames is None or sorted(l.strip() for l in o.split("\n") if l.strip()) != libnames:
        res.failing.append(("list-differs", "mpq list differs from Archive::list", {"cli": o[:300], "library": libnames, "exit": rc}))
    # ================================================================= C: other families on damaged input
    fams = {"dbc": ["info", "validate", "list"], "blp": ["info", "validate"], "m2": ["info", "validate", "tree", "skin-info", "anim-info"], "wmo": ["info", "validate", "tree", "list"],
            "adt": ["info", "validate", "tree"], "wdt": ["info", "validate", "tiles", "tree"], "wdl": ["info", "validate", "tree"], "mpq": ["info", "validate", "list", "tree"]}
    seeds = {"dbc": b"WDBC" + (1).to_bytes(4, "little") + (2).to_bytes(4, "little") + (8).to_bytes(4, "little") + (2).to_bytes(4, "little") + bytes(8) + b"\0\0",
             "blp": b"BLP2" + (1).to_bytes(4, "little") + bytes([2, 0, 0, 1]) + (4).to_bytes(4, "little") + (4).to_bytes(4, "little"),
             "m2": b"MD20" + (264).to_bytes(4, "little"), "wmo": b"REVM" + (4).to_bytes(4, "little") + (17).to_bytes(4, "little") + b"DHOM" + (64).to_bytes(4, "little"),
             "adt": b"REVM" + (4).to_bytes(4, "little") + (18).to_bytes(4, "little") + b"RDHM" + (64).to_bytes(4, "little"),
             "wdt": b"REVM" + (4).to_bytes(4, "little") + (18).to_bytes(4, "little") + b"DHPM" + (32).to_bytes(4, "little"),
             "wdl": b"REVM" + (4).to_bytes(4, "little") + (18).to_bytes(4, "little") + b"FOAM" + (16384).to_bytes(4, "little"), "mpq": b"MPQ\x1a" + (32).to_bytes(4, "little") + (100000).to_bytes(4, "little")}
    inputs = []
    for fam in fams:
        ext = {"dbc": "dbc", "blp": "blp", "m2": "m2", "wmo": "wmo", "adt": "adt", "wdt": "wdt", "wdl": "wdl", "mpq": "mpq"}[fam]
        variants = {"empty": b"", "random": bytes(r.randrange(256) for _ in range(300)), "magic-only": seeds[fam][:4], "truncated-header": seeds[fam],
                    "header-then-random": seeds[fam] + bytes(r.randrange(256) for _ in range(200)), "zeros": bytes(4096)}
        for vn, data in variants.items():
            p = os.path.join(base, "g_%s_%s.%s" % (fam, vn, ext))
            with open(p, "wb") as f:
                f.write(data)
            for sub in fams[fam]:
                inputs.append((fam, sub, vn, p))

    def doC(j):
        fam, sub, vn, p = j
        return runcli(cli, [fam, sub, p], timeout=60)
    with ThreadPoolExecutor(12) as exr:
        rcs = list(exr.map(doC, inputs))
    exit0 = []
    for (fam, sub, vn, p), (rc, o, e) in zip(inputs, rcs):
        stats["garbage_runs"] += 1
        res.case("%s %s %s" % (fam, sub, vn), nontrivial=True)
        case = {"command": "%s %s <%s input>" % (fam, sub, vn), "input_hex": C.hexs(open(p, "rb").read()[:64]), "exit": rc, "output_tail": (o + e)[-240:]}
        if rc < 0 or rc > 128:
            res.failing.append(("cli-dies-%s-%s" % (fam, sub), "the tool died (signal / timeout) on a damaged input", case))
        elif rc == 0:
            stats["garbage_exit0"] += 1
            exit0.append("%s %s %s" % (fam, sub, vn))
            # legacy .anim files are headerless raw data: no byte string is malformed for `m2 anim-info`, so only crashes are judged there
            if vn in ("empty", "random", "magic-only", "zeros") and (fam, sub) != ("m2", "anim-info"):
                res.failing.append(("exit0-on-garbage-%s-%s" % (fam, sub), "%s %s exits 0 on a %s input that is not a %s file" % (fam, sub, vn, fam), case))
    # ================================================================= D: blp validate against the decision model
    dims = [(1, 1), (2, 8), (8, 2), (4, 4), (3, 5), (4, 6), (6, 4), (8, 8), (1, 16), (16, 1), (12, 4), (4, 12), (2, 2), (16, 16), (5, 20), (20, 4), (32, 2)] + ([(w, h) for w in (1, 2, 4, 7, 8, 24) for h in (2, 3, 4, 10, 16)] if big else [])
    jobsD = []
    for fmt in ("dxt1", "dxt3", "dxt5", "raw1", "jpeg"):
        for (w, h) in dims:
            for strict in (False, True):
                jobsD.append((fmt, w, h, strict))

    for (w, h) in dims:     # the PPM inputs
        with open(os.path.join(base, "p_%dx%d.ppm" % (w, h)), "w") as f:
            f.write("P3\n%d %d\n255\n" % (w, h) + "".join("%d %d %d\n" % ((i * 13) % 256, (i * 7) % 256, 40) for i in range(w * h)))

    def convD(key):
        fmt, w, h = key
        ppm = os.path.join(base, "p_%dx%d.ppm" % (w, h))
        blp = os.path.join(base, "p_%dx%d_%s.blp" % (w, h, fmt))
        rc, o, e = runcli(cli, ["blp", "convert", ppm, blp, "--blp-version", "blp2" if fmt != "jpeg" else "blp1", "--blp-format", fmt, "--no-mipmaps"])
        return key, (rc, (o + e)[-160:], os.path.exists(blp))
    # first every conversion (one per texture), then the validations: a validation never sees a file that is still being written
    with ThreadPoolExecutor(4) as exr:
        conv = dict(exr.map(convD, sorted({(fmt, w, h) for fmt, w, h, _ in jobsD})))

    def doD(j):
        fmt, w, h, strict = j
        rc, tail, exists = conv[(fmt, w, h)]
        if rc != 0:
            return ("convert", rc, tail, exists)
        if not exists:
            return ("convert-no-output", rc, tail, False)
        blp = os.path.join(base, "p_%dx%d_%s.blp" % (w, h, fmt))
        rc, o, e = runcli(cli, ["blp", "validate", blp] + (["--strict"] if strict else []))
        return ("validate", rc, (o + e)[-200:], True)
    with ThreadPoolExecutor(4) as exr:
        rd = list(exr.map(doD, jobsD))
    want = C.run_lines([C.MODELRUN], ["blpvalid %d %d 0 %x %x" % (strict, fmt.startswith("dxt"), w, h) for fmt, w, h, strict in jobsD])
    nval = 0
    for (fmt, w, h, strict), (what, rc, tail, exists), m in zip(jobsD, rd, want):
        res.case("blp %s %dx%d strict=%s" % (fmt, w, h, strict), nontrivial=True)
        case = {"command": "blp convert <%dx%d ppm> <out.blp> --blp-format %s --no-mipmaps ; blp validate <out.blp>%s" % (w, h, fmt, " --strict" if strict else ""), "exit": rc, "output_tail": tail}
        if what == "convert-no-output":
            res.failing.append(("convert-exit0-without-output", "blp convert exits 0 but wrote no output file", case))
        elif what == "validate":
            nval += 1
            if rc < 0 or rc > 128:
                res.failing.append(("cli-dies-blp-validate", "blp validate died", case))
            elif (rc == 0) != (m == "0"):
                res.failing.append(("blp-validate-exit-untruthful", "blp validate exits %d on a %s texture of %dx%d (strict=%s); the validation rules give %s" % (rc, fmt, w, h, strict, "valid" if m == "0" else "invalid"), case))
    stats["blp_validate_runs"] = nval
    # ================================================================= E: converting sub-commands on valid inputs; create with colliding names
    gen = [("m2", C.bin_path("impl_m2"), ["model %x %x 3 2 2 4 0 1 2 1 0 1 1 1 1 1 1 1 2 0 2 302" % (v, 5 + v) for v in range(5)]),
           ("skin", C.bin_path("impl_m2"), ["skin 0 5 8 6 8 2 0", "skin 1 6 8 6 8 2 0"]),
           ("anim", C.bin_path("impl_m2"), ["anim 1 5 1 40 0", "anim 1 6 0 0 0", "anim 0 5 1 40"]),
           ("wmo", C.bin_path("impl_wmo"), ["root %s %x 3 2 1 1 2 2 2 0 2 0" % (v, 8 * (3 + i)) for i, v in enumerate(("17", "wotlk", "cata"))]),
           ("adt", C.bin_path("impl_adt"), ["build %x %x 2 1 1 0 0 2 3" % (v, 5 + v) for v in (0, 3, 5)]),
           ("wdt", C.bin_path("impl_wdt"), ["wdtwrite " + c18.gen_wdt(r, i) for i in range(2)])]
    targets = {"m2": ("m2", "convert", ["--version"], ["Vanilla", "TBC", "WotLK", "Cataclysm", "MoP"]), "skin": ("m2", "skin-convert", ["--version"], ["WotLK", "Cataclysm", "MoP"]),
               "anim": ("m2", "anim-convert", ["--version"], ["WotLK", "MoP", "Legion", "BfA"]), "wmo": ("wmo", "convert", ["--version"], ["Classic", "WotLK", "Cataclysm", "MoP"]),
               "adt": ("adt", "convert", ["--to"], ["classic", "tbc", "wotlk", "cataclysm"]), "wdt": ("wdt", "convert", None, ["Classic", "TBC", "WotLK", "Cataclysm", "MoP"])}
    jobsE = []
    for kind, binp, lines in gen:
        outs = C.run_lines([binp], lines, shards=1, timeout=600)
        for k, o in enumerate(outs):
            hx = None
            for tok in o.split(" "):
                if tok.startswith(("W1=", "B1=")):
                    hx = tok[3:]
            if hx is None and o and all(c in "0123456789abcdef" for c in o):
                hx = o
            try:
                raw = bytes.fromhex(hx or "")
            except ValueError:
                raw = b""
            if not raw:
                continue
            src = os.path.join(base, "e_%s_%d.%s" % (kind, k, {"m2": "m2", "skin": "skin", "anim": "anim", "wmo": "wmo", "adt": "adt", "wdt": "wdt"}[kind]))
            with open(src, "wb") as f:
                f.write(raw)
            fam, sub, opt, vers = targets[kind]
            for tv in vers:
                dst = src + "." + tv + ".out"
                args = [fam, sub, src, dst] + ([opt[0], tv] if opt else ["--from-version", "WotLK", "--to-version", tv])
                jobsE.append((kind, k, tv, args, dst))

    def doE(j):
        kind, k, tv, args, dst = j
        rc, o, e = runcli(cli, args, timeout=120)
        return rc, (o + e)[-200:], (os.path.getsize(dst) if os.path.exists(dst) else -1)
    with ThreadPoolExecutor(8) as exr:
        re_ = list(exr.map(doE, jobsE))
    stats["convert_runs"] = len(jobsE)
    stats["convert_exit0"] = sum(1 for rc, _, _ in re_ if rc == 0)
    for (kind, k, tv, args, dst), (rc, tail, size) in zip(jobsE, re_):
        res.case("convert %s %d -> %s" % (kind, k, tv), nontrivial=True)
        case = {"command": " ".join(a.replace(base, "<dir>") for a in args), "exit": rc, "output_bytes": size, "output_tail": tail}
        if rc < 0 or rc > 128:
            res.failing.append(("cli-dies-%s-%s" % (args[0], args[1]), "the tool died (signal / timeout) while converting a valid file", case))
        elif rc == 0 and size <= 0:
            res.failing.append(("convert-exit0-without-output-%s-%s" % (args[0], args[1]), "%s %s exits 0 but %s" % (args[0], args[1], "wrote no output file" if size < 0 else "wrote an empty output file"), case))
    # m2 validate: the exit status must follow the library's verdict and must not depend on --warnings
    vfiles = [(os.path.join(base, f), open(os.path.join(base, f), "rb").read()) for f in sorted(os.listdir(base)) if f.startswith("e_m2_") and f.endswith(".m2")]
    hollow = C.run_lines([C.bin_path("impl_m2")], ["model 2 1 0 0 0 0 0 0 0 0 0 0 0", "model 0 2 0 1 1 0 0 0 0 0 0 0 0"], shards=1)
    for k, o in enumerate(hollow):
        hx = next((t[3:] for t in o.split(" ") if t.startswith("W1=")), "")
        try:
            raw = bytes.fromhex(hx)
        except ValueError:
            raw = b""
        if raw:
            pth = os.path.join(base, "e_hollow_%d.m2" % k)
            with open(pth, "wb") as f:
                f.write(raw)
            vfiles.append((pth, raw))
    verdicts = C.run_lines([C.bin_path("impl_m2")], ["mvalidate " + raw.hex() for _, raw in vfiles], shards=1) if vfiles else []
    for (pth, raw), lib in zip(vfiles, verdicts):
        rcs = [runcli(cli, ["m2", "validate", pth] + fl)[0] for fl in ([], ["--warnings"])]
        res.case("m2 validate " + os.path.basename(pth), nontrivial=True)
        case = {"command": "m2 validate <%s> [--warnings]" % os.path.basename(pth), "library_verdict": lib, "exit_plain": rcs[0], "exit_with_warnings_flag": rcs[1]}
        if any(rc < 0 or rc > 128 for rc in rcs):
            res.failing.append(("cli-dies-m2-validate", "m2 validate died on a generated model", case))
        elif (rcs[0] == 0) != (rcs[1] == 0):
            res.failing.append(("m2-validate-exit-depends-on-flag", "m2 validate exits %d without and %d with --warnings on the same file" % tuple(rcs), case))
        elif lib in ("INVALID", "PARSE-ERR") and rcs[0] == 0:
            res.failing.append(("m2-validate-exit-untruthful", "m2 validate exits 0 on a model that the library's validation rejects (%s)" % lib, case))
    # mpq create with two inputs that get the same archive name (other directory, other case): exit 0 only if both come back
    dupd = os.path.join(base, "dup")
    for sub_, nm_, dta in (("a", "readme.txt", b"first"), ("b", "README.TXT", b"second one"), ("c", "tile.dat", b"x" * 300), ("d", "tile.dat", b"y" * 300)):
        os.makedirs(os.path.join(dupd, sub_), exist_ok=True)
        with open(os.path.join(dupd, sub_, nm_), "wb") as f:
            f.write(dta)
    for pair in ((("a", "readme.txt"), ("b", "README.TXT")), (("c", "tile.dat"), ("d", "tile.dat"))):
        arch = os.path.join(dupd, "t_%s.mpq" % pair[0][0])
        args = ["mpq", "create", arch] + [x for sd, nm_ in pair for x in ("-a", os.path.join(dupd, sd, nm_))] + ["--with-listfile"]
        rc, o, e = runcli(cli, args)
        res.case("create-colliding " + pair[0][1], nontrivial=True)
        if rc == 0:
            outd = os.path.join(dupd, "out_" + pair[0][0])
            runcli(cli, ["mpq", "extract", arch, "-o", outd])
            have = [open(os.path.join(dp, f), "rb").read() for dp, _, fs in os.walk(outd) for f in fs] if os.path.isdir(outd) else []
            lost = [nm_ for sd, nm_ in pair if open(os.path.join(dupd, sd, nm_), "rb").read() not in have]
            if lost:
                res.failing.append(("create-exit0-drops-input", "mpq create exits 0 but an input does not come back from the archive: %s" % lost,
                                    {"command": " ".join(a.replace(base, "<dir>") for a in args), "exit": rc, "output_tail": (o + e)[-200:]}))
    res.extra["runs"] = stats
    res.extra["exit0_on_damaged_inputs"] = exit0[:40]
    res.sample({"create_extract": ra[0][6][1:6] if ra else None, "model": mo[0][:120] if mo else None})
    res.traces = stats["create_extract"] + len(jobsB)
    shutil.rmtree(base, ignore_errors=True)
    return res.finish()
