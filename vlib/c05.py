"""C05 - parsers are total: bad input gives an error, never a crash, hang or huge allocation."""
import os, shutil, struct
from . import common as C
from . import c01, c18

BOUNDARY = [0, 1, 2, 0x7fffffff, 0x80000000, 0xffffffff, 0xfffffffe, 0x10000, 0x7fff, 0xffff]
CHUNKED = ("adt", "wmo", "wdt", "wdl")


def seeds(r, base, big):
    """valid files per format, produced by the library's own writers (through the harness bins) or by the model"""
    out = {}
    # mpq: two archives (V1 with listfile and checksums, V4 with attributes)
    files = [("a.txt", c01.gen_content(r, 4, 300), "2", 0), ("dir\\b.bin", c01.gen_content(r, 1, 700), "0", 1), ("m.dat", c01.gen_content(r, 2, 1400), "2", 0)]
    bl = ["build %s/s1.mpq 1 0 g c 1 0 2 %s" % (base, c01.entries_token(files)), "build %s/s4.mpq 4 0 g c 1 1 2 %s" % (base, c01.entries_token(files)),
          "build %s/s2.mpq 2 0 g n 0 0 8 %s" % (base, c01.entries_token([(n, d, "8", e) for n, d, _, e in files]))]
    bo = C.run_lines([C.bin_path("impl_mpq")], bl)
    out["mpq"] = [open("%s/s%d.mpq" % (base, k), "rb").read() for k, o in zip((1, 4, 2), bo) if o == "OK"]
    # patch files against the 64-byte base the runner applies them to: one COPY and three BSD0 patches (C08's generators)
    from . import c08
    pbase = b"\x07" * 64
    body = bytes(r.randrange(256) for _ in range(60))
    out["patch"] = [c08.make_ptch("copy", pbase, body, body)] + [c08.gen_bsd0(r, pbase)[0] for _ in range(3)]
    # dbc (model writer)
    d = C.run_lines([C.MODELRUN], ["dbcwrite u32,str,i32,f32 7;s6869;1;3f800000|9;s;3;0|8;s4162;5;7"])[0]
    out["dbc"] = [bytes.fromhex(d)]
    # blp
    bo = C.run_lines([C.bin_path("impl_blp")], ["blpbytes 8 8 1 1 2x 1 t", "blpbytes 10 6 4 2 2r4 1 t", "blpbytes 8 4 0 3 2c1 1 t", "blpbytes 6 6 3 4 1j0 0 t", "blpbytes 5 3 4 5 1r8 1 n"])
    out["blp"] = [bytes.fromhex(x) for x in bo if not x.startswith("ERR")]
    # wdt / wdl through the C18 generators
    wo = C.run_lines([C.bin_path("impl_wdt")], ["wdtwrite " + c18.gen_wdt(r, i) for i in (3, 9, 17)] + ["wdlbytes " + c18.gen_wdl(r, i) for i in (2, 5)])
    out["wdt"] = [bytes.fromhex(x) for x in wo[:3] if x and not x.startswith("ERR")]
    out["wdl"] = [bytes.fromhex(x) for x in wo[3:] if x and not x.startswith("ERR")]
    # m2 / skin / anim / adt / wmo: written by the library where the format harness exists, otherwise minimal headers
    extra = {"m2": [("impl_m2", "model 2 1 8 2 3 5 2 2 3 1 1 1 1"), ("impl_m2", "model 0 2 4 1 1 3 1 1 1 0 0 0 0")], "skin": [("impl_m2", "skin 1 1 c 12 4 2 2"), ("impl_m2", "skin 0 2 6 6 2 1 1")],
             "anim": [("impl_m2", "anim 1 1 2 20"), ("impl_m2", "anim 0 1 1 10")],
             "adt": [("impl_adt", "build 0 1 2 1 1 1 1 4 7f"), ("impl_adt", "build 4 2 1 0 0 0 0 2 11")] +
                    [("impl_adt", "build 3 %x 1 0 0 0 0 %x 10" % (k, c)) for k, c in (((1, 1), (2, 8), (3, 8), (4, 1), (5, 8), (6, 8)) if big else ((1, 1), (2, 8), (4, 8)))],      # small tiles with MH2O liquid instances
             "wmo": [("impl_wmo", "root 11 1 2 2 2 1 1 1 1 1 1 0"), ("impl_wmo", "group 11 1 8 c 1 1 1 0 0")]}
    for fmt, cmds in extra.items():
        got = []
        for b, cmd in cmds:
            p = C.bin_path(b)
            if os.path.exists(p):
                o = C.run_lines([p], [cmd], timeout=120)[0]
                for tok in o.split(" "):
                    if tok.startswith(("W1=", "B1=")) and len(tok) > 12 and not tok[3:].startswith(("ERR", "WRITE", "LEN")):
                        try:
                            got.append(bytes.fromhex(tok[3:]))
                        except ValueError:
                            pass
        out[fmt] = got
    synth = {"m2": b"MD20" + struct.pack("<I", 264) + bytes(300), "skin": b"SKIN" + bytes(60), "anim": bytes(64),
             "adt": b"REVM" + struct.pack("<II", 4, 18) + b"RDHM" + struct.pack("<I", 64) + bytes(64) + b"NICM" + struct.pack("<I", 4096) + bytes(4096),
             "wmo": b"REVM" + struct.pack("<II", 4, 17) + b"DHOM" + struct.pack("<I", 64) + bytes(64) + b"XTOM" + struct.pack("<I", 8) + b"a.blp\0\0\0"}
    for fmt, b in synth.items():
        out.setdefault(fmt, [])
        out[fmt].append(b)
    return out


def mutations(r, data, fmt, big):
    n = len(data)
    muts = []
    # prefixes
    for k in list(range(0, min(n, 72))) + [n * j // 24 for j in range(3, 24)] + [n - 1]:
        if 0 <= k < n:
            muts.append(("prefix:%d" % k, data[:k]))
    # boundary values in every 4-byte field of the first 320 bytes and in sampled later fields
    offs = list(range(0, min(n - 3, 320), 4)) + sorted(set(r.randrange(0, max(1, n - 4)) & ~3 for _ in range(60 if big else 24)))
    for o in offs:
        if o + 4 > n:
            continue
        for v in BOUNDARY + [n - 1, n, n + 1, max(0, n - o)]:
            muts.append(("field:%d=%x" % (o, v & 0xffffffff), data[:o] + struct.pack("<I", v & 0xffffffff) + data[o + 4:]))
    # small files: every single byte set to 0xff (counts, dimensions and indices narrower than 32 bits)
    if n < (24000 if fmt == "adt" else 12000) and fmt in ("adt", "wmo", "m2", "skin", "dbc", "blp", "patch"):
        for o in range(n):
            if data[o] != 0xff:
                muts.append(("byte:%d=ff" % o, data[:o] + b"\xff" + data[o + 1:]))
    # chunk operations
    if fmt in CHUNKED:
        ch, p = [], 0
        while p + 8 <= n:
            sz = struct.unpack_from("<I", data, p + 4)[0]
            if p + 8 + sz > n:
                break
            ch.append(data[p:p + 8 + sz])
            p += 8 + sz
        if len(ch) >= 2:
            for i in range(min(len(ch), 12)):
                muts.append(("chunk-del:%d" % i, b"".join(ch[:i] + ch[i + 1:])))
                muts.append(("chunk-dup:%d" % i, b"".join(ch[:i + 1] + ch[i:])))
                j = r.randrange(len(ch))
                c2 = list(ch)
                c2[i], c2[j] = c2[j], c2[i]
                muts.append(("chunk-swap:%d,%d" % (i, j), b"".join(c2)))
                muts.append(("chunk-size+1:%d" % i, b"".join(ch[:i]) + ch[i][:4] + struct.pack("<I", len(ch[i]) - 8 + 1) + ch[i][8:] + b"".join(ch[i + 1:])))
                muts.append(("chunk-size-max:%d" % i, b"".join(ch[:i]) + ch[i][:4] + struct.pack("<I", 0xffffffff) + ch[i][8:] + b"".join(ch[i + 1:])))
                # a well-formed chunk whose payload is longer / shorter than the fixed size the format expects
                for k in (1, 3, 4, 5, 8, 64, 4096):
                    pay = ch[i][8:]
                    muts.append(("chunk-grow:%d+%d" % (i, k), b"".join(ch[:i]) + ch[i][:4] + struct.pack("<I", len(pay) + k) + pay + bytes([0x11 * (k % 15 + 1)]) * k + b"".join(ch[i + 1:])))
                    if len(pay) >= k:
                        muts.append(("chunk-shrink:%d-%d" % (i, k), b"".join(ch[:i]) + ch[i][:4] + struct.pack("<I", len(pay) - k) + pay[:len(pay) - k] + b"".join(ch[i + 1:])))
                muts.append(("chunk-double:%d" % i, b"".join(ch[:i]) + ch[i][:4] + struct.pack("<I", 2 * (len(ch[i]) - 8)) + ch[i][8:] * 2 + b"".join(ch[i + 1:])))
    # havoc
    for k in range(160 if big else 60):
        b = bytearray(data)
        for _ in range(r.choice([1, 1, 2, 4, 16])):
            op = r.randrange(5)
            if not b:
                break
            i = r.randrange(len(b))
            if op == 0:
                b[i] ^= 1 << r.randrange(8)
            elif op == 1:
                b[i] = r.choice([0, 0xff, 0x7f, 0x80, r.randrange(256)])
            elif op == 2:
                j = r.randrange(len(b))
                ln = r.randrange(1, 32)
                b[i:i + ln] = b[j:j + ln]
            elif op == 3:
                del b[i:i + r.randrange(1, 24)]
            else:
                b[i:i] = bytes(r.randrange(256) for _ in range(r.randrange(1, 16)))
        muts.append(("havoc:%d" % k, bytes(b)))
    return muts


def run(tier, seed, replay=None):
    res = C.Result("C05", tier, seed)
    res.rule = ("valid files of every format (written by the library's own writers or by the model) are mutated: every prefix of the first 72 bytes and 21 longer prefixes, every 32-bit "
                "field of the first 320 bytes and sampled later fields set to 0, 1, 2, 2^15-1, 2^16-1, 2^16, 2^31-1, 2^31, 2^32-2, 2^32-1, size-1, size, size+1 and the distance to the end, "
                "every single byte of files below 12 KB set to 0xff, chunk deletion / duplication / swap / size+1 / size=2^32-1 and well-formed chunks grown by 1..4096 bytes, shortened or doubled for the chunked formats, random havoc, codec streams made of runs of each codec's control bytes, and (attributes) contents of every flag combination cut short or over-long; each mutant is given to the public entry points (Archive::open, "
                "list, read_file of up to 40 files, get_info, verify_signature; PatchFile::parse + apply_patch; parse_m2, parse_skin, AnimFile::parse; parse_adt; parse_wmo; parse_blp + "
                "blp_to_image; DbcParser::parse_bytes + parse_records; WdtReader::read; WdlParser::parse) in a forked child with a CPU limit of 5 s and an address-space limit of 2 GiB: "
                "any panic, abort, segmentation fault, time-out or allocation failure is a violation; header admission of the model against validate_header_security on boundary "
                "values; non-trivial = mutant; distinct = distinct (format, seed file, mutation)")
    res.assumptions = ["totality of the Rust parsers is observed on the mutants run, not proved; the theorems bound what an admitted MPQ header and a bounds-checked array may request, and the "
                       "chunk walk of the model", "third-party crates are built without overflow checks (as in a release build), the workspace crates with them",
                       "2 GiB of address space (one malloc arena, two rayon threads) for inputs of a few KiB stands for 'memory out of proportion'"]
    bins = ["impl_fuzz", "impl_mpq", "impl_blp", "impl_wdt"] + [b for b in ("impl_m2", "impl_adt", "impl_wmo") if os.path.exists(os.path.join(C.VERIF, "harness", "src", "bin", b + ".rs"))]
    mok, iok = C.standard_builds(res, "C05", bins)
    if not (mok and iok):
        return res.finish()
    r = C.rng(seed, "C05")
    big = tier == "thorough"
    base = os.path.join(C.CACHE, "c05")
    shutil.rmtree(base, ignore_errors=True)
    os.makedirs(base)
    sd = seeds(r, base, big)
    lines, meta = [], []
    for fmt, files in sd.items():
        for si, data in enumerate(files):
            lines.append("parse %s %s" % (fmt, C.hexs(data)))
            meta.append((fmt, si, "intact", len(data)))
            for name, m in mutations(r, data, fmt, big):
                if len(m) > 200000:
                    continue
                lines.append("parse %s %s" % (fmt, C.hexs(m)))
                meta.append((fmt, si, name, len(m)))
    # ---- directed families that byte mutations of whole files do not reach
    # (a) codec streams made of runs of the control bytes of each codec (mask, expected size, payload)
    ctl = {0x40: [0x80, 0x81, 0x00, 0x7f], 0x80: [0x80, 0x81, 0x00, 0x7f], 0x20: [0x7f, 0x80, 0xff, 0x00], 0x01: [0x00, 0xff, 0x80], 0x08: [0x00, 0x04, 0x05, 0x06, 0xff]}
    for mask, cb in ctl.items():
        for _ in range(400 if big else 120):
            body = bytearray()
            if mask in (0x40, 0x80):
                body += bytes([0, r.choice([0, 1, 4, 8, 0x20])]) + bytes(r.randrange(256) for _ in range(2 if mask == 0x40 else 4))
            elif mask == 0x08:
                body += bytes([r.choice([0, 1]), r.choice([4, 5, 6])])
            elif mask == 0x01:
                body += bytes([r.choice([0, 1, 2, 3, 4, 5, 6, 7, 8])])
            for _ in range(r.randrange(1, 5)):
                body += bytes([r.choice(cb)]) * r.randrange(1, 40)
            body += bytes(r.randrange(256) for _ in range(r.choice([0, 1, 2, 9])))
            size = r.choice([0, 1, 50, 512, 4096, 100000])
            lines.append("parse codec %02x%s%s" % (mask, size.to_bytes(4, "little").hex(), bytes(body).hex()))
            meta.append(("codec", mask, "control-runs", len(body)))
    # (a') ADPCM step-index walks: k step-down markers, j step-up markers, then samples (every k <= 47, j <= 12: all ways to sit at or beyond either end of the step table)
    for mask in (0x40, 0x80):
        for k in range(0, 48):
            for j in range(0, 13):
                body = bytes([0, 8]) + bytes([0x10, 0x20] * (1 if mask == 0x40 else 2)) + bytes([0x80]) * k + bytes([0x81]) * j + bytes([0x01, 0x7e, 0x3f, 0x40])
                lines.append("parse codec %02x%s%s" % (mask, (600).to_bytes(4, "little").hex(), body.hex()))
                meta.append(("codec", mask, "adpcm-walk-%d-%d" % (k, j), len(body)))
    # (b) (attributes) contents of every flag combination, complete, cut short by 1..9 bytes and over-long, for several block counts
    for nblk in (1, 3, 8, 9, 13, 16):
        for flags in range(16):
            full = (100).to_bytes(4, "little") + flags.to_bytes(4, "little")
            if flags & 1:
                full += bytes(r.randrange(256) for _ in range(4 * nblk))
            if flags & 2:
                full += bytes(r.randrange(256) for _ in range(8 * nblk))
            if flags & 4:
                full += bytes(r.randrange(256) for _ in range(16 * nblk))
            if flags & 8:
                full += bytes(r.randrange(256) for _ in range((nblk + 7) // 8))
            for cut in (0, 1, 2, 3, 4, 9, -1, -5):
                dta = full[:len(full) - cut] if cut >= 0 else full + bytes(-cut)
                lines.append("parse attrs %s%s" % (nblk.to_bytes(4, "little").hex(), dta.hex()))
                meta.append(("attrs", nblk, "flags%x-cut%d" % (flags, cut), len(dta)))
    order = list(range(len(lines)))
    r.shuffle(order)
    outs_sh = C.run_lines([C.bin_path("impl_fuzz")], [lines[i] for i in order], shards=C.NPROC, timeout=3000, env={"VERIF_TMP": base, "MALLOC_ARENA_MAX": "1", "RAYON_NUM_THREADS": "2"})
    outs = [None] * len(lines)
    for i, o in zip(order, outs_sh):
        outs[i] = o
    # anything that is not a value or an error is run again on its own (two more times): only outcomes that repeat are reported
    sus = [i for i, o in enumerate(outs) if not o.startswith(("OK:", "ERR:"))]
    if sus:
        again1 = C.run_lines([C.bin_path("impl_fuzz")], [lines[i] for i in sus], shards=4, timeout=3000, env={"VERIF_TMP": base, "MALLOC_ARENA_MAX": "1", "RAYON_NUM_THREADS": "2"})
        again2 = C.run_lines([C.bin_path("impl_fuzz")], [lines[i] for i in sus], shards=4, timeout=3000, env={"VERIF_TMP": base, "MALLOC_ARENA_MAX": "1", "RAYON_NUM_THREADS": "2"})
        for i, a, b in zip(sus, again1, again2):
            if a.startswith(("OK:", "ERR:")):
                outs[i] = a
            elif b.startswith(("OK:", "ERR:")):
                outs[i] = b
    res.extra["not_reproduced"] = len([i for i in sus if outs[i].startswith(("OK:", "ERR:"))])
    stats = {}
    for (fmt, si, name, ln), line, o in zip(meta, lines, outs):
        res.case("%s|%d|%s" % (fmt, si, name), nontrivial=name != "intact")
        cls = "ok" if o.startswith("OK:") else "err" if o.startswith("ERR:") else o.split("-")[0].lower()
        stats.setdefault(fmt, {}).setdefault(cls, 0)
        stats[fmt][cls] += 1
        if cls in ("ok", "err"):
            if name == "intact" and cls == "err" and fmt not in ("anim",):
                res.broken.append(("seed-file", {"what": "a file written by the library / model is rejected by the parser", "format": fmt, "seed": si, "out": o}))
            continue
        kind = name.split(":")[0]
        res.failing.append(("%s-%s" % (cls, fmt), "%s on a mutated %s file (%s, %d bytes): %s" % (cls.upper(), fmt, name, ln, o[:40]),
                            {"format": fmt, "seed_file": si, "mutation": name, "input_hex": line.split(" ")[2], "outcome": o[:60], "mutation_kind": kind}))
    res.extra["outcomes_by_format"] = stats
    res.extra["seed_files"] = {k: [len(x) for x in v] for k, v in sd.items()}
    # ---- header admission: model against validate_header_security
    hl = []
    vals = [0, 1, 2, 3, 16, 31, 32, 33, 1024, 1025, 65535, 65536, 999999, 1000000, 1000001, 0x0fffffff, 0x10000000, 0x7fffffff, 0x80000000, 0xfffffff0, 0xffffffff]
    good = [0x1a51504d, 32, 100000, 1, 3, 5000, 9000, 16, 8]
    for i in range(9):
        for v in vals:
            h = list(good)
            h[i] = v
            hl.append(h)
    for _ in range(600 if big else 200):
        h = list(good)
        for i in r.sample(range(1, 9), r.choice([2, 3, 4])):
            h[i] = r.choice(vals + [r.randrange(2 ** 32), r.randrange(70000)])
        hl.append(h)
    hq = ["hdrsec " + " ".join("%x" % (x & (0xffff if i in (3, 4) else 0xffffffff)) for i, x in enumerate(h)) for h in hl]
    io = C.run_lines([C.bin_path("impl_fuzz")], hq)
    mo = C.run_lines([C.MODELRUN], hq)
    dis = 0
    for q, a, m in zip(hq, io, mo):
        res.case(q)
        if (a == "OK") != (m == "OK"):
            dis += 1
            if dis <= 3:
                res.broken.append(("correspondence", {"what": "header admission: model and validate_header_security disagree", "fields": q, "impl": a, "model": m}))
    res.extra["header_admission"] = {"cases": len(hq), "accepted": sum(a == "OK" for a in io), "disagreements": dis}
    res.sample({"input": lines[1][:120], "outcome": outs[1]})
    res.traces = len(lines)
    shutil.rmtree(base, ignore_errors=True)
    return res.finish()
