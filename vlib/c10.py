"""C10 - corruption of protected data is detected; intact data always verifies."""
import os, shutil
from . import common as C
from . import c01

FL_CRC, FL_SINGLE, FL_COMPRESS, FL_ENC = 0x04000000, 0x01000000, 0x00000200, 0x00010000
NLE = bytes.fromhex("92627704BFB882CC0523B90CB1AC0459272175968D025EDA47DD7C49371BF8FAEB0E0A92167557AD51B78CCB68C5426290EE9FB14BC118E430349EA4ED6AD837")[::-1]


def base_files(r, methods):
    """small files of every storage shape: single unit raw / compressed, encrypted, fix-key, multi-sector"""
    m = lambda: "%x" % r.choice(methods)
    fs = [("s.txt", c01.gen_content(r, 4, r.randrange(150, 400)), m(), 0),
          ("raw.bin", c01.gen_content(r, 1, r.randrange(40, 220)), "0", 0),
          ("e.dat", c01.gen_content(r, 2, r.randrange(120, 300)), m(), 1),
          ("fix\\k.dat", c01.gen_content(r, 1, r.randrange(30, 120)), "0", 2),
          ("multi.dat", c01.gen_content(r, r.choice([2, 3, 4]), r.randrange(1100, 1700)), m(), 0),
          ("multie.dat", c01.gen_content(r, r.choice([2, 4]), r.randrange(1030, 1400)), m(), r.choice([1, 2])),
          ("(2)map.w3m", c01.gen_content(r, 1, r.randrange(600, 1200)), "0", 0)]      # a user file whose name looks like a special one
    # contents whose genuine CRC32 is a value a verifier may take for "no checksum" (0, all ones)
    fs.append(("crc0.bin", crc_forge(c01.gen_content(r, 1, r.randrange(20, 60)), 0), "0", 0))
    fs.append(("crcf.bin", crc_forge(c01.gen_content(r, 4, r.randrange(20, 60)), 0xFFFFFFFF), "0", 0))
    r.shuffle(fs)
    return fs


def crc_forge(prefix, target):
    """prefix + 4 bytes such that zlib.crc32 of the whole equals target"""
    import zlib
    tab = []
    for i in range(256):
        c = i
        for _ in range(8):
            c = (c >> 1) ^ 0xEDB88320 if c & 1 else c >> 1
        tab.append(c)
    rev = {t >> 24: (i, t) for i, t in enumerate(tab)}
    want = target ^ 0xFFFFFFFF
    # walk back four steps: the register before each of the four bytes
    idx = []
    reg = want
    for _ in range(4):
        i, t = rev[reg >> 24]
        idx.append(i)
        reg = ((reg ^ t) << 8) & 0xFFFFFFFF
    idx.reverse()
    cur = zlib.crc32(prefix) ^ 0xFFFFFFFF
    out = bytearray()
    for i in idx:
        byte = (cur ^ i) & 0xFF
        out.append(byte)
        cur = (cur >> 8) ^ tab[i]
    data = bytes(prefix) + bytes(out)
    assert zlib.crc32(data) == target, (hex(zlib.crc32(data)), hex(target))
    return data


def alterations(r, size, regions, big):
    """single-byte alterations at every offset (three kinds) and multi-byte ones"""
    alts = []
    for off in range(size):
        alts.append((off, "x", 1 << (off % 8)))
        alts.append((off, "x", 0x80 if off % 8 != 7 else 0x01))
        alts.append((off, "a", 1))
        if big:
            alts.append((off, "x", r.randrange(1, 256)))
    multi = []
    for lo, hi in regions:
        for _ in range(40 if big else 12):
            n = r.choice([2, 3, 4, 8, 16])
            o = r.randrange(lo, max(lo + 1, hi - 1))
            multi.append((o, bytes(r.randrange(256) for _ in range(n))))
        for o in range(lo, hi, 16 if big else 64):
            multi.append((o, bytes(4)))
            multi.append((o, b"\xff" * 4))
    return alts, multi


def alt_token(base, a):
    off, kind, v = a
    b = base[off]
    nb = (b ^ v) if kind == "x" else ((b + v) & 0xff)
    return "%x:%02x" % (off, nb)


def parse_layout(o):
    d = {}
    for tok in o.split(" "):
        k, v = tok.split("=", 1)
        d[k] = v
    files = {}
    for it in d.get("files", "").split(","):
        p = it.split(":")
        if len(p) == 5:
            files[bytes.fromhex(p[0]).decode()] = tuple(int(x, 16) for x in p[1:])
    d["files"] = files
    for k in ("ht", "bt", "het", "bet", "hi"):
        if k in d:
            a, b = d[k].split(":")
            d[k] = (int(a, 16), int(b, 16))
    for k in ("off", "hdr", "asize"):
        d[k] = int(d[k], 16)
    return d


def file_region(info, ssz=512):
    pos, csize, fsize, flags = info
    extra = 0
    if flags & FL_CRC:
        extra = 4 if flags & FL_SINGLE else 4 * ((fsize + ssz - 1) // ssz)
    return pos, pos + csize + extra


def run(tier, seed, replay=None):
    res = C.Result("C10", tier, seed)
    res.rule = ("small archives (V1..V4) with sector checksums, CRC32 / CRC32+MD5 attributes, V4 digests, or a library-made weak signature (archive at offset 0 and behind a "
                "512/1024-byte prefix): every offset of the archive is altered (bit flip, high-bit flip, +1; thorough: also a random value) and protected regions receive "
                "multi-byte overwrites; after each alteration every file is read (Archive::read_file) and verified (SFileVerifyFile, SFileVerifyArchive), get_info().md5_status "
                "and verify_signature are taken. Violation: a protected byte was altered and yet the read succeeds with different content while verification passes / the "
                "digest status stays valid / the signature stays WeakValid; or the intact archive does not verify. Crypto level: signed byte strings x every byte position x "
                "three alterations x every signature bit, plus the signature + modulus encoding. Model: the 64 KiB hashing loop and MD5 against calculate_mpq_hash_md5, and "
                "the model reader's verdict on altered archives against the library's. non-trivial = alteration inside a protected region; distinct = distinct (archive, alteration)")
    res.assumptions = ["MD5 / CRC32 / RSA are not proved collision-free: theorems state which bytes reach the digest and that a passing read matches the stored checksum; "
                       "adler32 is proved to detect every single-byte change", "storm-ffi is compiled into the harness from its source file (the crate only builds as cdylib/staticlib)"]
    mok, iok = C.standard_builds(res, "C10", ["impl_mpq", "impl_verify", "impl_compress"])
    if not (mok and iok):
        return res.finish()
    r = C.rng(seed, "C10")
    big = tier == "thorough"
    base = os.path.join(C.CACHE, "c10")
    shutil.rmtree(base, ignore_errors=True)
    os.makedirs(base)
    iv, im = [C.bin_path("impl_verify")], [C.bin_path("impl_mpq")]
    env = {"VERIF_TMP": base}
    # ---------------------------------------------------------------- base archives
    # attrs N = sector checksums only (generate_crcs(true), then attributes_option(None))
    shapes = [(1, "N", 1, 0), (1, "c", 0, 0), (2, "f", 1, 0), (4, "c", 1, 0), (3, "N", 1, 0), (4, "n", 0, 0), (2, "N", 1, 0), (2, "c", 1, 0), (4, "f", 1, 0), (4, "N", 1, 1)]
    if big:
        shapes = shapes * 3
    bases = []
    for i, (ver, attrs, crc, tcomp) in enumerate(shapes):
        methods = [[0x02], [0x02, 0x08], [0x10, 0x02], [0x02, 0x20, 0x12]][i % 4]
        files = base_files(r, methods)
        bases.append({"id": "b%d" % i, "cfg": {"ver": ver, "shift": 0, "lf": "g", "attrs": attrs, "crc": crc, "tcomp": tcomp, "defcomp": 2}, "files": files, "prefix": 0, "signed": False})
    for i, prefix in enumerate([0, 0x200, 0x400] + ([0, 0x200] if big else [])):
        files = [("(signature)", bytes(72), "0", 0), ("a.txt", c01.gen_content(r, 4, r.randrange(200, 700)), "0", 0), ("z.bin", c01.gen_content(r, 1, r.randrange(100, 900)), r.choice(["0", "2"]), 0)]
        bases.append({"id": "s%d" % i, "cfg": {"ver": 1 + i % 2, "shift": 0, "lf": r.choice(["g", "n"]), "attrs": "n", "crc": 0, "tcomp": 0, "defcomp": 0}, "files": files, "prefix": prefix, "signed": True})   # the signature is written afterwards: its file carries no checksum
    bl = ["build %s/%s.mpq %d %x %s %s %d %d %x %s" % (base, b["id"], b["cfg"]["ver"], b["cfg"]["shift"], b["cfg"]["lf"], b["cfg"]["attrs"], b["cfg"]["crc"], b["cfg"]["tcomp"],
                                                        b["cfg"]["defcomp"], c01.entries_token(b["files"])) for b in bases]
    bo = C.run_lines(im, bl, timeout=300)
    for b, o in zip(bases, bo):
        b["built"] = o == "OK"
        if not b["built"]:
            res.broken.append(("base-archive", {"build": bl[bases.index(b)][:200], "out": o}))
    sl = ["sign %s/%s.mpq %s/%s_s.mpq %x" % (base, b["id"], base, b["id"], b["prefix"]) for b in bases if b["signed"] and b["built"]]
    so = C.run_lines(iv, sl, timeout=300, env=env)
    k = 0
    for b in bases:
        b["path"] = "%s/%s.mpq" % (base, b["id"])
        if b["signed"] and b["built"]:
            if not so[k].startswith("OK"):
                res.failing.append(("cannot-sign", "the library cannot sign its own archive: " + so[k], {"build": bl[bases.index(b)][:300], "prefix": b["prefix"]}))
                b["built"] = False
            b["path"] = "%s/%s_s.mpq" % (base, b["id"])
            k += 1
    bases = [b for b in bases if b["built"]]
    special = ["(attributes)", "(listfile)", "(signature)"]
    lo = C.run_lines(iv, ["layout %s %s" % (b["path"], ",".join(C.hexs(n.encode()) for n in [f[0] for f in b["files"]] + special)) for b in bases], timeout=300, env=env)
    # ---------------------------------------------------------------- probes
    lines, meta = [], []
    for b, l in zip(bases, lo):
        b["bytes"] = open(b["path"], "rb").read()
        b["layout"] = lay = parse_layout(l)
        regs = []
        for n, info in lay["files"].items():
            if n in ("(listfile)",):
                continue
            regs.append(file_region(info))
        alts, multi = alterations(r, len(b["bytes"]), regs, big)
        multi = [(o, v) for o, v in multi if o + len(v) <= len(b["bytes"])]
        # data change plus a special value in the checksum field (0 / all ones / 1 are values a
        # verifier may take for "no checksum"): single-unit checksum and every entry of a sector table
        forged = []
        attr_forged = 0
        for n, info in lay["files"].items():
            pos, csize, fsize, flags = info
            if not flags & FL_CRC or csize == 0:
                continue
            if flags & FL_SINGLE:
                fields = [pos + csize]
                datas = [pos, pos + csize - 1, pos + csize // 2]
            else:
                nsec = (fsize + 511) // 512
                fields = [pos + (nsec + 1) * 4 + 4 * k for k in range(nsec)]
                datas = [pos + (nsec + 1) * 4 + nsec * 4 + 1, pos + csize + nsec * 4 - 1]
            for fo in fields:
                for val in (b"\0\0\0\0", b"\xff\xff\xff\xff", b"\1\0\0\0"):
                    for do in datas:
                        forged.append([(do, bytes([b["bytes"][do] ^ 0x41])), (fo, val)])
        # the same for the CRC32 column of (attributes) when that file is stored as it is (header 8 bytes, then one entry per block)
        ainfo = lay["files"].get("(attributes)")
        if ainfo and not ainfo[3] & (FL_COMPRESS | FL_ENC) and ainfo[1] == ainfo[2] and b["cfg"]["attrs"] in ("c", "f"):
            a0 = ainfo[0]
            import zlib
            for k, f in enumerate(b["files"]):
                info = lay["files"].get(f[0])
                if info is None or info[1] == 0:
                    continue
                fo = a0 + 8 + 4 * k
                if int.from_bytes(b["bytes"][fo:fo + 4], "little") != zlib.crc32(f[1]):
                    continue          # not where this file's entry is
                attr_forged = attr_forged + 1
                for val in (b"\0\0\0\0", b"\xff\xff\xff\xff"):
                    for do in (info[0] + info[1] - 1, info[0] + info[1] // 2):
                        forged.append([(do, bytes([b["bytes"][do] ^ 0x41])), (fo, val)])
        toks = ["-"] + [alt_token(b["bytes"], a) for a in alts] + ["%x:%s" % (o, C.hexs(v)) for o, v in multi] + ["+".join("%x:%s" % (o, C.hexs(v)) for o, v in f) for f in forged]
        b["alts"] = [None] + [(a[0], 1) for a in alts] + [(o, len(v)) for o, v in multi] + [(min(o for o, _ in f), max(o + len(v) for o, v in f) - min(o for o, _ in f)) for f in forged]
        b["toks"] = toks
        b["attr_forged"] = attr_forged
        names = ",".join(C.hexs(f[0].encode()) for f in b["files"] if f[0] != "(signature)")
        b["names"] = [f[0] for f in b["files"] if f[0] != "(signature)"]
        for j in range(0, len(toks), 48):
            lines.append("probe %s %s %s" % (b["path"], names, " ".join(toks[j:j + 48])))
            meta.append((b, j))
    order = list(range(len(lines)))
    r.shuffle(order)          # spread the archives over the shards
    outs_sh = C.run_lines(iv, [lines[i] for i in order], shards=C.NPROC, timeout=1500 if big else 600, env=env)
    outs = [None] * len(lines)
    for i, o in zip(order, outs_sh):
        outs[i] = o
    stats = {"probes": 0, "protected_probes": 0, "open_fail": 0, "read_fail_or_verify_fail": 0, "content_identical": 0, "hang_or_abort_batches": 0}
    regions_hit = {}
    crash_examples = {}
    for (b, j), o in zip(meta, outs):
        toks = b["toks"][j:j + 48]
        if o in ("ABORT", "TIMEOUT") or o is None or len(o.split(";")) != len(toks):
            stats["hang_or_abort_batches"] += 1
            res.broken.append(("probe-batch", {"archive": b["id"], "first": toks[0], "out": (o or "")[:80]}))
            continue
        lay = b["layout"]
        orig = {f[0]: f[1] for f in b["files"]}
        has_attrs = "(attributes)" in lay["files"]      # generate_crcs(true) switches CRC32 attributes on
        attr_reg = file_region(lay["files"]["(attributes)"]) if "(attributes)" in lay["files"] else None
        for t, (alt, pr) in zip(range(j, j + len(toks)), zip(b["alts"][j:j + 48], o.split(";"))):
            stats["probes"] += 1
            case = {"archive_build": bl_of(b), "prefix": b["prefix"], "signed": b["signed"], "alteration": b["toks"][t], "result": pr[:300]}
            if pr.startswith("OPEN-") or pr in ("PANIC", "ABORT", "HANG"):
                if alt is None:
                    res.failing.append(("intact-fails", "the intact archive cannot be opened: " + pr, case))
                # a crash returns no content: it is counted here and belongs to C05 (hostile input never crashes)
                stats["open_fail" if pr.startswith("OPEN-") else "crash_" + pr.lower()] = stats.get("open_fail" if pr.startswith("OPEN-") else "crash_" + pr.lower(), 0) + 1
                if not pr.startswith("OPEN-") and len(crash_examples.setdefault(pr, [])) < 4:
                    crash_examples[pr].append({"archive": bl_of(b)[:40], "version": b["cfg"]["ver"], "alteration": b["toks"][t]})
                res.case("%s|%s" % (b["id"], b["toks"][t]), nontrivial=alt is not None)
                continue
            reads, md5s, sig, va = pr.split(" ")
            per = dict(zip(b["names"], reads.split(",")))
            if alt is None:
                # ---- R0: the intact archive verifies
                bad = [n for n in b["names"] if per[n] != "OK:%s/1" % C.hexs(orig[n])]
                if bad:
                    res.failing.append(("intact-fails", "intact archive: read/verify of %r gives %s" % (bad[0], per[bad[0]][-40:]), case))
                if md5s not in ("none",) and "0" in md5s:
                    res.failing.append(("intact-digest-invalid", "intact V4 archive reports md5_status %s" % md5s, case))
                if b["signed"] and sig != "WeakValid":
                    res.failing.append(("intact-signature-invalid", "library-made signature does not verify: %s" % sig, case))
                if va != "1":
                    res.failing.append(("intact-fails", "SFileVerifyArchive fails on the intact archive", case))
                res.case("%s|intact" % b["id"])
                continue
            off, ln = alt
            span = (off, off + ln)
            inside = lambda reg: reg is not None and span[0] < reg[1] and reg[0] < span[1]
            protected = False
            # ---- R1/R2: file data, checksums, attributes
            for n in b["names"]:
                info = lay["files"].get(n)
                if info is None:
                    continue
                prot = (inside(file_region(info)) and (info[3] & FL_CRC or has_attrs)) or (has_attrs and inside(attr_reg))
                if not prot:
                    continue
                protected = True
                regions_hit["file-data" if inside(file_region(info)) else "attributes"] = regions_hit.get("file-data" if inside(file_region(info)) else "attributes", 0) + 1
                rd, vf = per[n].rsplit("/", 1)
                if rd.startswith("OK:") and rd != "OK:" + C.hexs(orig[n]) and vf == "1":
                    kind = "sector-crc" if info[3] & FL_CRC else "attributes"
                    shape = ("single" if info[3] & FL_SINGLE else "multi") + ("-compressed" if info[3] & FL_COMPRESS else "") + ("-encrypted" if info[3] & FL_ENC else "")
                    res.failing.append(("undetected-%s-%s" % (kind, shape), "altered bytes at 0x%x (len %d) inside the protected region of %r: read returns different content and verification passes"
                                        % (off, ln, n), case))
                elif rd.startswith("OK:") and rd != "OK:" + C.hexs(orig[n]) and va == "1" and not (n.startswith("(") and n.endswith(")")) \
                        and file_region(info)[0] <= span[0] and span[1] <= file_region(info)[1]:
                    # the read hands out different content without an error and the alteration touches nothing but this file's data (the listing is
                    # intact): the all-files verification of the archive is then the caller's only other line of defence and must not pass
                    res.failing.append(("verify-archive-misses-damaged-file", "altered bytes at 0x%x inside the data of %r: read returns different content, SFileVerifyFile reports the damage, "
                                        "SFileVerifyArchive passes" % (off, n), case))
                elif rd.startswith("OK:") and rd == "OK:" + C.hexs(orig[n]):
                    stats["content_identical"] += 1
                else:
                    stats["read_fail_or_verify_fail"] += 1
            # ---- R3: V4 digests
            if md5s != "none" and not md5s.startswith(("ERR", "PANIC")):
                tabs = [("hdr", (lay["off"], lay["off"] + lay["hdr"]), 5), ("ht", lay.get("ht"), 0), ("bt", lay.get("bt"), 1), ("het", lay.get("het"), 3), ("bet", lay.get("bet"), 4)]
                for nm, reg, bit in tabs:
                    if reg is None:
                        continue
                    reg2 = reg if nm == "hdr" else (lay["off"] + reg[0], lay["off"] + reg[0] + reg[1])
                    if reg2[1] > reg2[0] and inside(reg2):
                        protected = True
                        regions_hit["v4-" + nm] = regions_hit.get("v4-" + nm, 0) + 1
                        if "0" not in md5s:
                            res.failing.append(("undetected-v4-%s" % nm, "altered bytes at 0x%x inside the V4 %s region: md5_status still reports every digest valid" % (off, nm), case))
            # ---- R4: signature
            if b["signed"]:
                sreg = file_region(lay["files"]["(signature)"])
                a0, a1 = lay["off"], lay["off"] + lay["asize"]
                if span[0] >= a0 and span[1] <= a1 and not (sreg[0] <= span[0] and span[1] <= sreg[0] + 8):
                    protected = True
                    regions_hit["signed-bytes"] = regions_hit.get("signed-bytes", 0) + 1
                    if sig == "WeakValid":
                        res.failing.append(("undetected-signed-bytes", "altered bytes at 0x%x of a signed archive (prefix %d): verify_signature still reports WeakValid" % (off, b["prefix"]), case))
                    if sig == "WeakValid" and va != "1":
                        pass
            stats["protected_probes"] += protected
            res.case("%s|%s" % (b["id"], b["toks"][t]), nontrivial=protected)
    res.extra["probe_stats"] = stats
    res.extra["crashes_on_altered_archives_counted_not_judged_here"] = crash_examples
    res.extra["protected_regions_hit"] = regions_hit
    res.extra["archives"] = [{"id": b["id"], "version": b["cfg"]["ver"], "attrs": b["cfg"]["attrs"], "sector_crc": b["cfg"]["crc"], "signed": b["signed"], "prefix": b["prefix"], "bytes": len(b["bytes"]),
                              "alterations": len(b["toks"]), "attribute_crc_entries_forged": b.get("attr_forged", 0)} for b in bases]
    # ---------------------------------------------------------------- crypto level
    sweeps = []
    specs = [(3000, 0, 3000, 100, 1), (3000, 0, 3000, 0, 1), (3000, 0, 3000, 2928, 1), (4608, 512, 4096, 1512, 1), (5000, 1024, 3000, 1024, 1), (70000, 0, 70000, 65500, 211), (140000, 512, 139000, 131040, 409)]
    if big:
        specs += [(9000, 0, 9000, r.randrange(0, 8900), 1), (200000, 0, 200000, 65536 - 36, 97), (131072 + 512, 512, 131072, 70000, 61)]
    for i, (total, begin, size, sp, step) in enumerate(specs):
        p = "%s/buf%d.bin" % (base, i)
        with open(p, "wb") as f:
            f.write(bytes(r.randrange(256) for _ in range(total)))
        sweeps.append("sigsweep %s %x %x %x %x" % (p, begin, size, sp, step))
        sweeps.append("sigplusn %s %x %x %x" % (p, begin, size, sp))
        if i < 2:
            sweeps.append("signmany %s %x %x %x %x" % (p, begin, size, sp, 4000 if big else 1200))
    swo = C.run_lines(iv, sweeps, shards=min(C.NPROC, len(sweeps)), timeout=1500, env=env)
    tried = 0
    for s, o in zip(sweeps, swo):
        res.case(s.replace(base, "<dir>"), nontrivial=True)
        case = {"command": s.replace(base, "<dir>"), "out": o}
        p = o.split(" ")
        if s.startswith("signmany"):
            if len(p) != 6 or p[0] != "SIGNED":
                res.failing.append(("signature-sweep-error", "signing many variants failed: " + o[:60], case))
            elif p[5] != "-":
                res.failing.append(("own-signature-rejected", "signatures produced by the library do not verify (variants %s; %s of %s signatures have a zero top byte)" % (p[5], p[3], p[1]), case))
            continue
        if s.startswith("sigsweep"):
            if len(p) != 5:
                res.failing.append(("signature-sweep-error", "signature sweep failed: " + o[:60], case))
                continue
            tried += int(p[1])
            if p[0] != "1":
                res.failing.append(("own-signature-rejected", "a signature produced by the library does not verify", case))
            if p[2] != "0":
                res.failing.append(("undetected-signed-bytes", "%s altered positions of the signed byte string still verify (first at 0x%s)" % (p[2], p[3]), case))
            if p[4] != "0":
                res.failing.append(("undetected-signature-change", "%s single-bit changes of the signature still verify" % p[4], case))
        else:
            if o == "OVERFLOW":
                continue
            if p[0] != "1":
                res.failing.append(("own-signature-rejected", "a signature produced by the library does not verify", case))
            if len(p) > 1 and p[1] == "1":
                res.failing.append(("undetected-signature-change", "signature + modulus (a different 64-byte string) still verifies", case))
    res.extra["signature_level_alterations"] = tried
    # ---------------------------------------------------------------- model: hashing loop + MD5
    hv, hm = [], []
    cases = []
    for i in range(60 if big else 24):
        if i < 3:
            total = [140000, 70000, 131072 + 100][i]
            begin = [0, 512, 0][i]
            end = [139990, 70000, 131072 + 100][i]
            exb = [65500, 65536, 131000][i]
            exe = exb + 72
        else:
            total = r.randrange(1, 1500)
            begin = r.choice([0, 0, r.randrange(0, total)])
            end = r.choice([total, total, r.randrange(begin, total + 1), total + r.randrange(0, 50)])
            exb = r.choice([r.randrange(0, total + 20), begin, max(0, begin - 5), end - 3 if end > 3 else 0])
            exe = exb + r.choice([72, 0, 1, r.randrange(0, 200)])
        data = bytes(r.randrange(256) for _ in range(total))
        p = "%s/hv%d.bin" % (base, i)
        with open(p, "wb") as f:
            f.write(data)
        hv.append("hashview %s %x %x %x %x" % (p, begin, end, exb, exe))
        hm.append("sigdigest %s %x %x %x %x" % (C.hexs(data), begin, end, exb, exe))
        cases.append((total, begin, end, exb, exe))
    ho = C.run_lines(iv, hv, shards=4, timeout=600, env=env)
    mo = C.run_lines([C.MODELRUN], hm, shards=min(C.NPROC, len(hm)), timeout=900)
    agree = 0
    for cse, a, m in zip(cases, ho, mo):
        res.case("hashview %s" % (cse,))
        mm = m.split(" ")
        if mm[0] != a or (len(mm) > 1 and mm[1] != "1"):
            res.broken.append(("correspondence", {"what": "the model of the 64 KiB hashing loop (Integrity.hashed_stream + Md5.md5) differs from calculate_mpq_hash_md5, or the loop differs from signed_view",
                                                   "total,begin,end,exb,exe": cse, "impl": a, "model": m[:80]}))
        else:
            agree += 1
    res.extra["hashing_loop_agreement"] = "%d/%d" % (agree, len(cases))
    # ---------------------------------------------------------------- model: reader verdicts on altered archives
    mb = [b for b in bases if b["cfg"]["ver"] <= 2 and not b["signed"] and b["cfg"]["crc"] == 1][: (4 if big else 2)]
    mlines, mmeta = [], []
    for b in mb:
        need = C.run_lines([C.MODELRUN], ["mneeds %s %s" % (c01.cfg_tokens(b["cfg"]), c01.entries_token(b["files"]))])[0]
        creq = need.split(",") if need != "-" else []
        table = dict(zip(creq, C.run_lines([C.bin_path("impl_compress")], ["comp %s %s" % tuple(x.split(".")) for x in creq])))
        tab = ",".join("%s.%s" % (x, table[x]) for x in creq if table[x] not in ("ERR", "PANIC")) or "-"
        names = ",".join(C.hexs(n.encode()) for n in b["names"])
        for t, alt in enumerate(b["alts"]):
            if alt is None:
                prot = True
            else:
                # the model cannot decode altered compressed payloads (its codecs are tables of the
                # library's own outputs): uncompressed files entirely, compressed files in their checksum bytes
                prot = any(alt[0] < hi and lo < alt[0] + alt[1] for lo, hi in model_regions(b))
            if not prot:
                continue
            bs = bytearray(b["bytes"])
            if alt is not None:
                for a in b["toks"][t].split("+"):
                    o, v = a.split(":")
                    v = bytes.fromhex(v)
                    bs[int(o, 16):int(o, 16) + len(v)] = v
            mlines.append("mreadall %s %s %s" % (C.hexs(bytes(bs)), names, tab))
            mmeta.append((b, t))
    mres = C.run_lines([C.MODELRUN], mlines, shards=C.NPROC, timeout=1500)
    # the library's answers for the same alterations are in outs
    impl_ans = {}
    for (b, j), o in zip(meta, outs):
        if o and ";" in o or (o and " " in o):
            for t, pr in zip(range(j, j + 48), o.split(";")):
                impl_ans[(b["id"], t)] = pr
    magree = mdis = 0
    for (b, t), m in zip(mmeta, mres):
        pr = impl_ans.get((b["id"], t))
        if pr is None or pr.startswith("OPEN-") or " | " not in m:
            continue
        per = dict(zip(b["names"], pr.split(" ")[0].split(",")))
        got = dict(x.split(">", 1) for x in m.split(" | ")[0].split(","))
        for n in b["names"]:
            irc = per[n].rsplit("/", 1)[0]
            icls = irc if irc.startswith("OK:") else ("NOTFOUND" if "FileNotFound" in irc else "ERR")
            mcls = got.get(C.hexs(n.encode()), "?")
            res.case("mread %s %d %s" % (b["id"], t, n))
            if icls == mcls:
                magree += 1
            else:
                mdis += 1
                if mdis <= 3:
                    res.broken.append(("correspondence", {"what": "the model reader's verdict on an altered archive differs from Archive::read_file", "archive_build": bl_of(b), "alteration": b["toks"][t],
                                                           "file": n, "impl": icls[:60], "model": mcls[:60]}))
    res.extra["model_reader_verdicts"] = {"agree": magree, "disagree": mdis}
    res.sample({"probe": lines[0][:160].replace(base, "<dir>"), "result": (outs[0] or "")[:200]})
    res.sample({"sweep": sweeps[0].replace(base, "<dir>"), "out": swo[0]})
    res.traces = stats["probes"]
    shutil.rmtree(base, ignore_errors=True)
    return res.finish()


def model_regions(b, ssz=512):
    out = []
    for n, info in b["layout"]["files"].items():
        if n not in b["names"] or not info[3] & FL_CRC:
            continue
        pos, csize, fsize, flags = info
        if not flags & FL_COMPRESS:
            out.append(file_region(info))
        elif flags & FL_SINGLE:
            out.append((pos + csize, pos + csize + 4))
        else:
            nsec = (fsize + ssz - 1) // ssz
            out.append((pos + (nsec + 1) * 4, pos + (nsec + 1) * 4 + nsec * 4))
    return out


def bl_of(b):
    c = b["cfg"]
    return ("build <out> %d %x %s %s %d %d %x %s" % (c["ver"], c["shift"], c["lf"], c["attrs"], c["crc"], c["tcomp"], c["defcomp"], c01.entries_token(b["files"])))[:1500]
