"""C16 - BLP encode -> parse is exact; lossless encodings preserve pixels."""
import os, shutil
from . import common as C

TARGETS = ["0r0", "0r1", "0r4", "0r8", "0j0", "0j1", "1r0", "1r1", "1r4", "1r8", "1j0", "1j1", "2r0", "2r1", "2r4", "2r8", "2x", "2j0", "2j1", "2a0", "2a1", "2b0", "2b1", "2c0", "2c1"]
HEADER = {"0": 28, "1": 28 + 128, "2": 20 + 128}


def run(tier, seed, replay=None):
    res = C.Result("C16", tier, seed)
    res.rule = ("generated RGBA images (1x1 .. 128x128, thorough up to 512; non-square, non-power-of-two, all-transparent, 16 colours, noise, alpha ramps) x every target (BLP0/1/2; "
                "palettised with 0/1/4/8 alpha bits, raw BGRA, JPEG, DXT1/3/5 with and without alpha) x mipmaps on/off x filters: image_to_blp -> encode -> parse must give an equal "
                "structure; the number of images and every level's dimensions must equal the model's chain (down to 1x1); stored offsets and sizes must lie behind the header, inside "
                "the file, consecutive and without overlap; raw BGRA must decode to the source pixels exactly; for the palettised encoding every decoded colour must be a palette "
                "entry, the stored alpha plane must equal the model's packed plane and the decoded alpha the model's quantised alpha; non-trivial = non-square or non-power-of-two "
                "image with mipmaps, or alpha depth 1/4; distinct = distinct case")
    res.assumptions = ["JPEG and DXT pixel content is lossy and not compared; the colour quantiser (NeuQuant) is not modelled: only palette membership is checked",
                       "resize filters of the image crate produce the mipmap pixels; their dimensions are modelled, their content is not"]
    mok, iok = C.standard_builds(res, "C16", ["impl_blp"])
    if not (mok and iok):
        return res.finish()
    r = C.rng(seed, "C16")
    big = tier == "thorough"
    dims = [(1, 1), (1, 7), (7, 1), (2, 2), (3, 5), (5, 3), (4, 4), (7, 9), (16, 4), (4, 16), (31, 17), (33, 2), (64, 64), (100, 30), (128, 128), (6, 10), (12, 20)]
    if big:
        dims += [(256, 256), (512, 512), (511, 3), (300, 200), (129, 65), (2, 512)]
    cases = []
    for (w, h) in dims:
        for tg in TARGETS:
            for mips in (0, 1):
                if not big and r.random() < 0.45 and (w, h) not in ((5, 3), (3, 5), (1, 7), (33, 2)):
                    continue
                if w * h > 40000 and tg[1] in "jr" and not big:
                    continue
                cases.append((w, h, r.choice([0, 1, 2, 3, 4]), r.randrange(1, 1000), tg, mips, r.choice(["n", "t", "c", "g", "l"])))
    il = ["blp %x %x %x %x %s %d %s" % c for c in cases]
    io = C.run_lines([C.bin_path("impl_blp")], il, shards=C.NPROC, timeout=3000)
    ml = []
    for c, o in zip(cases, io):
        d = dict(x.split("=", 1) for x in o.split(" ")) if o.startswith("EQ=") else {}
        bits = int(c[4][2:]) if c[4][1] == "r" else 0
        ml.append("blpmodel %x %x %d %x %s" % (c[0], c[1], c[5], bits, d.get("SRCA", "-")))
    mo = C.run_lines([C.MODELRUN], ml, shards=C.NPROC, timeout=3000)
    stats = {"equal_structures": 0, "raw3_exact": 0, "raw1_alpha_planes": 0}
    for c, o, m in zip(cases, io, mo):
        w, h, kind, sd, tg, mips, flt = c
        nontriv = (mips and (w != h or w & (w - 1))) or (tg[1] == "r" and tg[2:] in ("1", "4"))
        res.case("%dx%d k%d s%d %s m%d %s" % (w, h, kind, sd, tg, mips, flt), nontrivial=bool(nontriv))
        case = {"command": "blp %x %x %x %x %s %d %s" % c, "width": w, "height": h, "target": tg, "mipmaps": mips, "filter": flt, "result": o[:300]}
        if not o.startswith("EQ="):
            res.failing.append(("%s-fails-%s" % (o.split("_")[0].split(" ")[0].lower(), tg[:2]), "encode/parse of a %dx%d image to target %s fails: %s" % (w, h, tg, o[:120]), case))
            continue
        d = dict(x.split("=", 1) for x in o.split(" "))
        md = dict(x.split("=", 1) for x in m.split(" ")) if m.startswith("N=") else {}
        if not md:
            res.broken.append(("model-run", {"out": m[:200]}))
            continue
        if d["EQ"] != "1":
            res.failing.append(("structure-differs-%s" % tg[:2], "parse(encode(x)) differs from x for a %dx%d image, target %s, mipmaps %d" % (w, h, tg, mips), case))
            continue
        stats["equal_structures"] += 1
        if int(d["N"], 16) != int(md["N"]) or d["DIMS"] != md["DIMS"]:
            res.failing.append(("mipmap-chain-%s" % tg[:2], "the mipmap chain is %s (%d images); halving down to 1x1 gives %s" % (d["DIMS"], int(d["N"], 16), md["DIMS"]), case))
            continue
        # locator
        flen = int(d["FILE"], 16)
        if d["LOC"] != "ext":
            loc = [tuple(int(x, 16) for x in it.split(".")) for it in d["LOC"].split(",")]
            n = int(d["N"], 16)
            used, rest = loc[:n], loc[n:]
            bad = None
            prev_end = None
            for i, (off, sz) in enumerate(used):
                if off < HEADER[tg[0]] or off + sz > flen or sz == 0:
                    bad = "level %d at offset %d size %d lies outside the file (header %d, length %d)" % (i, off, sz, HEADER[tg[0]], flen)
                if prev_end is not None and off < prev_end:
                    bad = "level %d at offset %d overlaps the previous level ending at %d" % (i, off, prev_end)
                prev_end = off + sz
            if any(x != (0, 0) for x in rest):
                bad = "unused locator entries are not zero"
            if bad:
                res.failing.append(("locator-%s" % tg[:2], bad, case))
                continue
        # pixels
        if tg == "2x":
            if d["PIX"] != "exact":
                res.failing.append(("raw3-not-lossless", "raw BGRA decodes to different pixels (%s)" % d["PIX"][:40], case))
                continue
            stats["raw3_exact"] += 1
        elif tg[1] == "r":
            p = d["PIX"].split(":")
            if p[0] != "pal" or p[1] != "0":
                res.failing.append(("raw1-colour-outside-palette", "decoded colours outside the palette: %s" % d["PIX"][:40], case))
                continue
            bits = int(tg[2:])
            if bits and (p[2] != md["DEC"]):
                res.failing.append(("raw1-alpha-differs", "decoded alpha is not the source alpha quantised to %d bit(s)" % bits, dict(case, decoded=p[2][:80], model=md["DEC"][:80])))
                continue
            if d["AL"] != md["AL"]:
                res.failing.append(("raw1-alpha-plane-differs", "the stored alpha plane differs from the packed quantised alpha (%d bits)" % bits, dict(case, stored=d["AL"][:80], model=md["AL"][:80])))
                continue
            stats["raw1_alpha_planes"] += 1
    res.extra["checked"] = stats
    res.extra["cases"] = len(cases)
    res.sample({"case": il[0], "library": io[0][:200], "model": mo[0][:200]})
    res.traces = len(cases)
    return res.finish()
