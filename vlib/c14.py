"""C14 - ADT terrain survives build -> serialise -> parse, and re-serialisation is stable."""
import os, shutil, struct
from . import common as C

M = lambda s: int.from_bytes(s[::-1].encode(), "little")        # magic as stored on disk (reversed)
MHDR_FIELDS = [("MCIN", 4), ("MTEX", 8), ("MMDX", 12), ("MMID", 16), ("MWMO", 20), ("MWID", 24), ("MDDF", 28), ("MODF", 32), ("MFBO", 36), ("MH2O", 40), ("MTXF", 44)]
CLEAN_BITS = [0x1, 0x2, 0x4, 0x8, 0x10, 0x20, 0x200, 0x400, 0x800, 0x1000, 0x4000]
# parts whose loss is a listed finding are generated in cases of their own (see known_findings.json)
FINDING_CASES = [("mcrf-refs", 0x100), ("blend-mesh", 0x2000), ("mcbb", 0x8000), ("mcmt", 0x10000), ("mcdd", 0x20000), ("mcrd-mcrw", 0x40000), ("raw-flags", 0x80008), ("hires-holes", 0x100000)]


def tables(b):
    """MHDR and MCIN tables of a file, as (magic, relative offset) lists for the proved checker"""
    out = {}
    p = 0
    chunks = []
    while p + 8 <= len(b):
        cid = b[p:p + 4]
        sz = struct.unpack_from("<I", b, p + 4)[0]
        chunks.append((cid[::-1].decode("latin1"), p, sz))
        p += 8 + sz
    mh = [c for c in chunks if c[0] == "MHDR"]
    if mh:
        o = mh[0][1] + 8
        out["mhdr"] = (o, [(M(nm), struct.unpack_from("<I", b, o + off)[0]) for nm, off in MHDR_FIELDS if o + off + 4 <= len(b)])
    mc = [c for c in chunks if c[0] == "MCIN"]
    if mc:
        o = mc[0][1] + 8
        ent = [struct.unpack_from("<II", b, o + 16 * i) for i in range(256) if o + 16 * i + 8 <= len(b)]
        out["mcin"] = (0, [(M("MCNK"), e[0]) for e in ent if e[0]])
    return out


def run(tier, seed, replay=None):
    res = C.Result("C14", tier, seed)
    res.rule = ("tiles assembled through AdtBuilder for every version VanillaEarly..MoP: 0..4 names per list with shared prefixes, placements, 0..256 populated terrain chunks with every "
                "optional part on/off (layers, alpha, shadow, vertex colours, liquid MCLQ / MH2O, flight bounds, sound emitters, MTXF, MAMP, MTXP, MCLV): serialise, parse, rebuild "
                "from the parsed tile (both rebuild paths), serialise, parse, serialise again. Content after the first and second parse must equal what was built (the detected "
                "version label alone is not content), the third file must equal the second byte for byte and no file may be longer than its predecessor; on all three files the "
                "extracted proved checker decides that the chunk framing tiles the file exactly and that every MHDR and MCIN entry points at a chunk of the named type; the "
                "library-independent walk of the harness must agree with the model's walk; non-trivial = tile with terrain chunks and an optional part; distinct = distinct build")
    res.assumptions = ["content comparison is done part by part on the library's own parsed structures (debug strings where there is no PartialEq)",
                       "parts whose loss is a listed finding are exercised in cases of their own so that they do not mask the others"]
    mok, iok = C.standard_builds(res, "C14", ["impl_adt"])
    if not (mok and iok):
        return res.finish()
    r = C.rng(seed, "C14")
    big = tier == "thorough"
    ib = [C.bin_path("impl_adt")]
    cases = []
    for i in range(140 if big else 48):
        ver = i % 6
        mask = 0
        for b in CLEAN_BITS:
            if r.random() < 0.45:
                mask |= b
        if i % 7 == 0:
            mask = 0
        if i % 5 == 4:
            mask |= 0x200000            # rebuild through AdtBuilder::from_parsed
        nch = r.choice([0, 1, 2, 5, 16, 0x100 if (big and i % 20 == 0) else 3])
        cases.append((None, "build %x %x %x %x %x %x %x %x %x" % (ver, r.randrange(1, 0x7fff), r.choice([1, 2, 4]), r.choice([0, 1, 3]), r.choice([0, 1, 2]), 0, 0, nch, mask)))
    for i in range(24 if big else 10):     # placements need names
        ver = r.randrange(6)
        cases.append((None, "build %x %x %x %x %x %x %x %x %x" % (ver, r.randrange(1, 0x7fff), 2, 3, 2, r.choice([1, 4]), r.choice([1, 3]), r.choice([1, 4]), r.choice([0x3, 0x1f, 0x3f]))))
    for name, bits in FINDING_CASES:
        for ver in ((5, 4) if name not in ("mcrf-refs", "raw-flags") else (0, 3)):
            cases.append((name, "build %x %x 2 1 1 1 1 3 %x" % (ver, r.randrange(1, 999), bits)))
    io = C.run_lines(ib, [c for _, c in cases], shards=C.NPROC, timeout=3000)
    # files for the model: B1 is printed; B2/B3 are checked by the harness walk (FRAME) and, for B1, by the proved checker
    fl, fmeta = [], []
    for k, ((tag, c), o) in enumerate(zip(cases, io)):
        d = dict(x.split("=", 1) for x in o.split(" ") if "=" in x)
        b1 = d.get("B1", "")
        if b1 and b1 != "~" and not b1.startswith(("BUILD", "WRITE", "GEN")):
            try:
                raw = bytes.fromhex(b1)
            except ValueError:
                continue
            t = tables(raw)
            fl.append("framing " + b1)
            fmeta.append((k, "framing"))
            for nm, (origin, tab) in t.items():
                fl.append("tablecheck %s %x %s" % (b1, origin, ",".join("%x:%x" % e for e in tab) or "-"))
                fmeta.append((k, nm))
    mo = C.run_lines([C.MODELRUN], fl, shards=C.NPROC, timeout=3000)
    cl = ["chunks " + l.split(" ")[1] for l, (k, nm) in zip(fl, fmeta) if nm == "framing"]
    co = C.run_lines(ib, cl, shards=C.NPROC, timeout=3000)
    model = {}
    ci = 0
    for (k, nm), o in zip(fmeta, mo):
        model.setdefault(k, {})[nm] = o
        if nm == "framing":
            model[k]["impl_chunks"] = co[ci]
            ci += 1
    stats = {"round_trips_equal": 0, "stable": 0, "framing_checked": 0, "tables_checked": 0}
    for k, ((tag, c), o) in enumerate(zip(cases, io)):
        p = c.split(" ")
        nontriv = int(p[8], 16) > 0 and int(p[9], 16) != 0
        res.case(c, nontrivial=nontriv)
        d = dict(x.split("=", 1) for x in o.split(" ") if "=" in x)
        case = {"command": c, "result": " ".join(x for x in o.split(" ") if not x.startswith(("B1=", "NAMES=")))[:700]}
        suffix = ("-" + tag) if tag else ""
        b1 = d.get("B1", "")
        if b1.startswith(("BUILD", "WRITE", "GEN")):
            res.failing.append(("build-fails" + suffix, "a tile accepted by the builder cannot be serialised: " + b1[:100], case))
            continue
        if d.get("EQ1", "").startswith(("PARSE", "CMP")):
            res.failing.append(("parse-fails" + suffix, "the serialised tile cannot be parsed: " + d["EQ1"][:100], case))
            continue
        diff1 = [x for x in d.get("DIFF1", "-").split(",") if x not in ("-", "version")]
        diff2 = [x for x in d.get("DIFF2", "-").split(",") if x not in ("-", "version")]
        if diff1:
            res.failing.append(("content-differs-%s%s" % (diff1[0], suffix), "parsed content differs from what was built: %s" % ",".join(diff1), case))
            continue
        if d.get("EQ2", "").startswith(("PARSE", "WRITE", "BUILD")):
            res.failing.append(("rebuild-fails" + suffix, "the parsed tile cannot be rebuilt and parsed again: " + d["EQ2"][:100], case))
            continue
        if diff2:
            res.failing.append(("reparse-differs-%s%s" % (diff2[0], suffix), "content after parse -> rebuild -> parse differs: %s" % ",".join(diff2), case))
            continue
        stats["round_trips_equal"] += 1
        lens = d.get("LEN", "").split(",")
        try:
            l1, l2, l3 = (int(x, 16) for x in lens)
        except ValueError:
            res.failing.append(("rebuild-fails" + suffix, "rebuild did not produce three files: LEN=%s" % d.get("LEN"), case))
            continue
        if d.get("STABLE") != "1" or l2 > l1 or l3 > l2:
            res.failing.append(("rewrite-unstable" + suffix, "re-serialisation is not stable: lengths %d, %d, %d, third file %s the second" % (l1, l2, l3, "equals" if d.get("STABLE") == "1" else "differs from"), case))
            continue
        stats["stable"] += 1
        if d.get("FRAME") != "1,1,1":
            res.failing.append(("framing" + suffix, "chunk framing / offset tables of a produced file are wrong: FRAME=%s" % d.get("FRAME"), case))
            continue
        mk = model.get(k)
        if mk:
            stats["framing_checked"] += 1
            if not mk["framing"].endswith("TILES=1"):
                res.failing.append(("framing" + suffix, "the proved walk does not tile the file exactly", dict(case, model=mk["framing"][-60:])))
                continue
            # the harness walk (ids readable, offsets) against the model walk (magic values)
            mine = [(bytes.fromhex("%08x" % int(x.split(":")[0], 16)).decode("latin1"), int(x.split(":")[1], 16), int(x.split(":")[2], 16)) for x in mk["framing"].split(" ")[0].split(",")]
            theirs = [(x.split(":")[0], int(x.split(":")[1], 16), int(x.split(":")[2], 16)) for x in mk["impl_chunks"].split(" ")[0].split(",") if x.count(":") == 2]
            if mine != theirs:
                res.broken.append(("correspondence", {"what": "chunk walk of the model differs from the walk of the harness", "command": c, "model": mine[:5], "harness": theirs[:5]}))
            for nm in ("mhdr", "mcin"):
                if nm in mk:
                    stats["tables_checked"] += 1
                    if mk[nm] != "1":
                        res.failing.append(("offset-table-%s%s" % (nm, suffix), "an entry of the %s table does not point at a chunk of the named type" % nm.upper(), case))
    res.extra["checked"] = stats
    res.extra["cases"] = len(cases)
    res.sample({"command": cases[1][1], "result": " ".join(x for x in io[1].split(" ") if not x.startswith(("B1=", "NAMES=")))[:300]})
    res.traces = len(cases)
    return res.finish()
