"""C08 - patch-chain lookup returns the highest-priority version whatever the history."""
import hashlib, itertools, os, shutil, struct
from . import common as C

NAMES = ["shared.txt", "Data\\Common.bin", "only1.txt", "only2.txt", "data/two.dat", "UPPER.TXT"]
# which archive lists which names (ids 1..4)
HOLD = {1: [0, 1, 2, 5], 2: [0, 1, 3, 4], 3: [0, 4, 5], 4: [1, 0]}
QUERY = ["shared.txt", "SHARED.TXT", "data/common.bin", "Data\\Common.bin", "only1.txt", "only2.txt", "data\\two.dat", "upper.txt", "missing.txt", "(listfile)"]
PRIOS = [-1, 0, 0, 5]


def fold(n):
    return n.replace("/", "\\").upper()


def content(aid, name):
    return ("archive %d holds %s" % (aid, fold(name))).encode()


def op_alphabet():
    ops = []
    for i in (1, 2, 3, 4):
        for p in (-1, 0, 5):
            ops.append("a.%d.%d" % (i, p))
            ops.append("s.%d.%d" % (i, p))
        ops.append("r.%d" % i)
    ops.append("c")
    return ops


def bspatch_ref(base, ctrl, data, extra):
    new = bytearray()
    old = 0
    dp = ep = 0
    for add, mov, seek in ctrl:
        chunk = bytearray(data[dp:dp + add]); dp += add
        for j in range(len(chunk)):
            if old + j < len(base):
                chunk[j] = (chunk[j] + base[old + j]) & 0xFF
        new += chunk
        old += add
        new += extra[ep:ep + mov]; ep += mov
        if seek & 0x80000000:
            old = max(0, old - ((0x80000000 - seek) & 0xFFFFFFFF))
        else:
            old += seek
    return bytes(new)


def rle_literal(b):
    out = struct.pack("<I", len(b))
    for i in range(0, len(b), 128):
        c = b[i:i + 128]
        out += bytes([0x80 | (len(c) - 1)]) + c
    return out


def make_ptch(kind, base, new, payload, psize=None):
    h = struct.pack("<IIII", 0x48435450, len(payload) if psize is None else psize, len(base), len(new))
    h += struct.pack("<II", 0x5f35444d, 40) + hashlib.md5(base).digest() + hashlib.md5(new).digest()
    h += struct.pack("<III", 0x4d524658, 12 + len(payload), 0x59504f43 if kind == "copy" else 0x30445342)
    return h + payload


def gen_bsd0(r, base):
    ctrl, data, extra = [], b"", b""
    for _ in range(r.randrange(1, 5)):
        add = r.randrange(0, 40)
        mov = r.randrange(0, 20)
        seek = r.choice([0, 3, 10, 0x80000000 + 5, 0x80000000 + 200, 1000])
        ctrl.append((add, mov, seek))
        data += bytes(r.randrange(256) for _ in range(add))
        extra += bytes(r.randrange(256) for _ in range(mov))
    new = bspatch_ref(base, ctrl, data, extra)
    cb = b"".join(struct.pack("<III", a, m, s) for a, m, s in ctrl)
    bs = struct.pack("<QQQQ", 0x3034464649445342, len(cb), len(data), len(new)) + cb + data + extra
    return make_ptch("bsd0", base, new, rle_literal(bs), psize=len(bs)), new


def run(tier, seed, replay=None):
    res = C.Result("C08", tier, seed)
    res.rule = ("histories of add / remove / set-priority / clear over 4 real archives with overlapping names and priorities {-1,0,0,5}: every history of length <=2 "
                "(quick; <=3 thorough) exhaustively, every order of three archives at distinct priorities followed by a removal, plus seeded longer ones, sequential and parallel construction; per history every queried spelling is looked up "
                "through the real PatchChain and through the model; COPY/BSD0 patch files (well-formed, then header fields, digests (incl. all-zero) and payload bytes altered) applied by the real "
                "apply_patch and by the model; non-trivial = history contains at least one add; distinct = distinct case line")
    res.assumptions = ["an archive inside the chain is abstracted to 'listed name -> content' (tie to real archives: C01); names are ASCII",
                       "patch entries inside archives (FLAG_PATCH_FILE) cannot be produced by the builder; the patch applier is exercised directly"]
    mok, iok = C.standard_builds(res, "C08", ["impl_mpq"])
    if not (mok and iok):
        return res.finish()
    r = C.rng(seed, "C08")
    big = tier == "thorough"
    base = os.path.join(C.CACHE, "c08")
    shutil.rmtree(base, ignore_errors=True)
    os.makedirs(base)
    ib = [C.bin_path("impl_mpq")]
    bl = []
    for aid, idx in HOLD.items():
        ents = ",".join("%s:%s:0:0" % (C.hexs(NAMES[k].encode()), C.hexs(content(aid, NAMES[k]))) for k in idx)
        bl.append("build %s/arch%d.mpq 1 3 g n 0 0 2 %s" % (base, aid, ents))
    bo = C.run_lines(ib, bl, shards=1)
    if any(o != "OK" for o in bo):
        res.broken.append(("archive-build", {"out": bo}))
        return res.finish()
    # name keys for the model: folded spelling -> integer
    keys = {}
    for n in NAMES + QUERY:
        keys.setdefault(fold(n), len(keys) + 1)
    holds = "/".join("%d:%s" % (aid, ";".join("%d=%d" % (keys[fold(n)], aid * 100 + keys[fold(n)]) for n in [NAMES[k] for k in idx] + ["(listfile)"])) for aid, idx in HOLD.items())
    alpha = op_alphabet()
    hist = [[]]
    for L in (1, 2, 3) if big else (1, 2):
        hist += [list(t) for t in itertools.product(alpha, repeat=L)]
    for _ in range(3000 if big else 500):
        hist.append([r.choice(alpha) for _ in range(r.randrange(3, 9))])
    # three archives at pairwise distinct priorities in every order of addition, then one of them removed (or re-prioritised):
    # covers the removal of an archive that serves no name while lower-priority ones stay behind it
    for trio in itertools.combinations((1, 2, 3, 4), 3):
        for order in itertools.permutations(trio):
            for prios in itertools.permutations((-1, 0, 5)):
                adds = ["a.%d.%d" % (i, p) for i, p in zip(order, prios)]
                for i in trio:
                    hist.append(adds + ["r.%d" % i])
                if big:
                    for i in trio:
                        for p in (-1, 5):
                            hist.append(adds + ["s.%d.%d" % (i, p)])
                            hist.append(adds + ["r.%d" % i, "a.%d.%d" % (i, p)])
    qhex = ",".join(C.hexs(q.encode()) for q in QUERY)
    qkeys = ",".join(str(keys[fold(q)]) for q in QUERY)
    il, ml = [], []
    for h in hist:
        ops = ",".join(h) if h else "-"
        il.append("chain seq %s %s %s" % (base, ops, qhex))
        ml.append("chain seq %s %s %s" % (ops, holds, qkeys))
        if h and all(o.startswith("a.") for o in h):
            il.append("chain par %s %s %s" % (base, ops, qhex))
            ml.append("chain par %s %s %s" % (ops, holds, qkeys))
    io = C.run_lines(ib, il, timeout=3000)
    mo = C.run_lines([C.MODELRUN], ml)
    mism = 0
    for l, a, b, m in zip(il, io, mo, ml):
        res.case(l.replace(base, ""), nontrivial=" a." in l or ",a." in l)
        # model line: "<order> n>id:content,..." ; impl: "hex>id:contenthex:has,... | listed"
        try:
            order, mres = b.split(" ")
            exp_parts = []
            in_chain = [int(x) for x in order.split(",")] if order != "-" else []
            for q, item in zip(QUERY, mres.split(",")):
                w = item.split(">")[1]
                if w == "none":
                    exp_parts.append((q, "none", None))
                else:
                    aid = int(w.split(":")[0])
                    exp_parts.append((q, str(aid), None if q == "(listfile)" else content(aid, q)))
            got_items, listed, selfdesc = (a.split(" | ") + ["", ""])[:3]
            ok = True
            why = ""
            info, _, flags = selfdesc.partition(";")
            if flags:
                ok = False
                why = "the chain contradicts itself: %s" % flags
            elif l.startswith("chain seq") and [x.split(":")[0] for x in info.split(",") if x] != [str(x) for x in in_chain]:
                ok = False
                why = "get_chain_info lists the archives as %s, the model's order is %s" % (info, in_chain)
            for (q, w, c), item in zip(exp_parts, got_items.split(",")):
                _, rest = item.split(">")
                gw, gc, has = rest.split(":")
                if gw != w or (c is not None and gc != C.hexs(c)) or (w == "none" and not gc.startswith("ERR")) or (has == "1") != (w != "none"):
                    ok = False
                    why = "name %r: model winner %s, implementation %s content %s contains=%s" % (q, w, gw, gc[:40], has)
                    break
            exp_list = sorted({C.hexs(NAMES[k].encode()) for aid in set(in_chain) for k in HOLD[aid]} | ({C.hexs(b"(listfile)")} if in_chain else set()))
            got_list = sorted(x for x in listed.split(",") if x)
            # names listed by several archives in different spellings appear once per spelling
            if ok and {bytes.fromhex(x).decode().replace("/", "\\").upper() for x in got_list} != {bytes.fromhex(x).decode().replace("/", "\\").upper() for x in exp_list}:
                ok = False
                why = "list() differs: %s vs %s" % (got_list, exp_list)
        except Exception as ex:
            ok, why = False, "unparsable outputs: %s / %s (%s)" % (a[:80], b[:80], ex)
        if not ok:
            mism += 1
            res.failing.append(("chain-lookup", "chain answer differs from the highest-priority/earliest-added rule: " + why,
                                {"case": l.replace(base, "<dir>"), "impl": a[:400], "model": b[:400], "archives": {str(k): [NAMES[i] for i in v] for k, v in HOLD.items()}}))
            if mism > 20:
                break
    res.sample({"case": il[40].replace(base, "<dir>"), "impl": io[40][:200], "model": mo[40]})
    res.extra["histories"] = len(hist)
    res.extra["exhaustive_domains"] = ["all histories of length <= %d over %d operations" % (3 if big else 2, len(alpha))]
    res.exhaustive = True
    # ---- patch application
    pl = []
    pats = []
    for i in range(400 if big else 80):
        b0 = bytes(r.randrange(256) for _ in range(r.choice([0, 1, 16, 50, 100, 300])))
        if i % 2 == 0:
            new = bytes(r.randrange(256) for _ in range(r.choice([0, 1, 20, 200])))
            pats.append((make_ptch("copy", b0, new, new), b0, new))
        else:
            p, new = gen_bsd0(r, b0)
            pats.append((p, b0, new))
    for p, b0, new in pats:
        pl.append(("patchapply %s %s" % (C.hexs(p), C.hexs(b0)), p, b0, new, True))
        for _ in range(12 if big else 6):
            q = bytearray(p)
            k = r.randrange(6)
            if k == 0:
                o = r.choice([4, 8, 12, 20, 60, 64])
                big_ok = o != 4      # a huge patch_data_size makes the model materialise the buffer (allocation is C05's subject)
                q[o:o + 4] = struct.pack("<I", r.choice([0, 1, 39, 41, len(b0) + 1, max(0, len(new) - 1), 70000] + ([0x7FFFFFFF, 0xFFFFFFFF] if big_ok else [])))
            elif k == 1:
                o = r.randrange(24, 56)
                q[o] ^= 1 << r.randrange(8)
            elif k == 2 and len(q) > 68:
                o = r.randrange(68, len(q))
                q[o] ^= 1 << r.randrange(8)
            elif k == 3:
                q = q[: r.randrange(len(q))]
            elif k == 4 and len(q) > 110:
                o = 68 + 4 + 1 + r.choice([8, 16, 24])       # bsdiff header fields behind the RLE marker
                q[o:o + 8] = struct.pack("<Q", r.choice([0, 12, 24, 0xFFFFFFFFFFFFFFF0, 0x7FFFFFFFFFFFFFFF, 1 << 32]))
            else:
                q += bytes(r.randrange(1, 9))
            base2 = b0 if r.random() < 0.8 else (b0 + b"x")
            pl.append(("patchapply %s %s" % (C.hexs(bytes(q)), C.hexs(base2)), bytes(q), base2, None, False))
        # digests replaced by special values: all zero, all ones, the other digest
        for lo, val in ((24, bytes(16)), (40, bytes(16)), (40, b"\xff" * 16), (40, p[24:40]), (24, p[40:56])):
            q = bytearray(p)
            if bytes(q[lo:lo + 16]) == val:
                continue
            q[lo:lo + 16] = val
            base2 = b0
            pl.append(("patchapply %s %s" % (C.hexs(bytes(q)), C.hexs(base2)), bytes(q), base2, None, False))
    lines = [x[0] for x in pl]
    io2 = C.run_lines(ib, lines)
    mo2 = C.run_lines([C.MODELRUN], lines)
    pm = 0
    for (l, p, b0, new, wellformed), a, b in zip(pl, io2, mo2):
        res.case("p" + hashlib.sha1(l.encode()).hexdigest())
        if a != b:
            pm += 1
            if pm <= 4:
                res.broken.append(("correspondence", {"case": l[:300], "impl": a[:120], "model": b[:120]}))
        if a.startswith("OK "):
            out = bytes.fromhex(a[3:]) if a[3:] != "-" else b""
            if len(p) >= 56 and (hashlib.md5(out).digest() != p[40:56] or hashlib.md5(b0).digest() != p[24:40]):
                res.failing.append(("unverified-patch-result", "apply_patch returned bytes whose digest is not the one the patch declares (or accepted a base with a different digest)",
                                    {"case": l[:400], "result": a[:200]}))
            if wellformed and out != new:
                res.failing.append(("patch-result-wrong", "well-formed patch applied to its base does not give the patched file", {"case": l[:400], "result": a[:200]}))
        elif wellformed:
            res.failing.append(("patch-rejected", "well-formed patch rejected: " + a[:60], {"case": l[:400]}))
        elif a in ("PANIC", "ABORT", "TIMEOUT"):
            res.failing.append(("patch-crash", "apply_patch crashed on an altered patch file: " + a, {"case": l[:400]}))
    res.extra["patch_cases"] = len(pl)
    res.extra["patch_ok"] = sum(1 for a in io2 if a.startswith("OK"))
    res.extra["patch_panics"] = sum(1 for a in io2 if a == "PANIC")
    res.extra["correspondence_mismatches"] = pm
    res.traces = len(il) + len(pl)
    shutil.rmtree(base, ignore_errors=True)
    return res.finish()
