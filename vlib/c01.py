"""C01 - MPQ build -> open round trip returns every file bit-identically."""
import os, shutil
from . import common as C

METHODS = [0x00, 0x02, 0x10, 0x12, 0x20, 0x08]      # none, zlib, bzip2, LZMA, sparse, PKWare
ADPCM = [0x40, 0x80, 0x42, 0x81]


def _up(c):
    return c.upper() if "a" <= c <= "z" else c


def _lo(c):
    return c.lower() if "A" <= c <= "Z" else c


def spellings(r, name):
    # ASCII case and slash direction only (the property's quantifier)
    out = {name, "".join(map(_up, name)), "".join(map(_lo, name)), name.replace("\\", "/"), name.replace("/", "\\")}
    out.add("".join(_up(c) if r.random() < 0.5 else _lo(c) for c in name))
    return sorted(out)


def gen_content(r, kind, n):
    if kind == 0:
        return bytes(n)
    if kind == 1:
        return bytes(r.randrange(256) for _ in range(n))
    if kind == 2:
        p = bytes(r.randrange(256) for _ in range(r.randrange(2, 30)))
        return (p * (n // len(p) + 1))[:n]
    if kind == 3:
        a = bytearray(n)
        for _ in range(max(1, n // 40)):
            if n:
                a[r.randrange(n)] = r.randrange(1, 256)
        return bytes(a)
    if kind == 5:
        # runs of non-zero bytes and of zeros whose lengths sit on the boundaries of run-length style codecs
        out = bytearray()
        while len(out) < n:
            out += bytes(r.randrange(1, 256) for _ in range(r.choice([1, 2, 3, 127, 128, 129, 130, 255, 256, 257, 385])))
            out += bytes(r.choice([1, 2, 3, 4, 5, 128, 129, 130, 131, 132, 133, 134, 261, 391]))
        return bytes(out[:n])
    w = [b"quest ", b"item ", b"World\\Maps\\Azeroth\\", b"\r\n", b"0123456789"]
    return b"".join(r.choice(w) for _ in range(n // 4 + 1))[:n]


def sweep_case(r, i):
    """families of small files straddling the point where compression stops paying
    (method byte + payload == input length is the boundary of the store-raw rule)"""
    method = [0x20, 0x02, 0x10, 0x12, 0x08, 0x02][i % 6]
    files = []
    if method == 0x20:
        for k in range(1, 61):
            files.append(("sw%d.dat" % k, bytes(7) + bytes(r.randrange(1, 256) for _ in range(k)), "d", r.choice([0, 0, 1])))
    else:
        pre = bytes(r.randrange(256) for _ in range(r.choice([0, 16, 60, 140])))
        for k in range(0, 60):
            body = pre + bytes([r.randrange(256)]) * k if i % 2 == 0 else pre + (b"ab" * 40)[:k] + bytes(r.randrange(256) for _ in range(k % 5))
            files.append(("sw%d.dat" % k, body, "d", r.choice([0, 0, 2])))
    cfg = {"ver": 1 + (i % 2), "shift": 0, "lf": "g", "attrs": "n", "crc": 0, "tcomp": 0, "defcomp": method}
    return cfg, files


def gen_case(r, i, big):
    if i < 12:
        return sweep_case(r, i)
    ver = r.choice([1, 2]) if i % 4 else r.choice([1, 2, 3, 4])
    shift = r.choice([0, 0, 0, 1, 2, 3, 8]) if not big else r.randrange(0, 9)
    ssz = 512 << shift
    if shift >= 3 and not big:
        sizes_pool = [0, 1, 5, ssz - 1, ssz, ssz + 1]
    else:
        sizes_pool = [0, 1, 2, 3, 4, 5, ssz - 1, ssz, ssz + 1, 2 * ssz, 2 * ssz + 7, 3 * ssz - 1, 5 * ssz + 3]
    nfiles = r.choice([0, 1, 2, 3, 5, 8, 12]) if i % 5 else r.randrange(0, 13)
    names = []
    stems = ["file", "Data\\Sub\\Model", "interface/glue/Main", "a", "World\\Maps\\K\\k_32_48", "unit\xe9", "x" * 60, "README"]
    while len(names) < nfiles:
        n = "%s%d.%s" % (r.choice(stems), r.randrange(1000), r.choice(["txt", "blp", "M2", "dat"]))
        if n.replace("/", "\\").upper() not in [x.replace("/", "\\").upper() for x in names]:
            names.append(n)
    defcomp = r.choice(METHODS)
    files = []
    for n in names:
        size = r.choice(sizes_pool)
        data = gen_content(r, r.randrange(6), size)
        comp = r.choice(["d", "d", "%x" % r.choice(METHODS)])
        enc = r.choice([0, 0, 1, 2])
        files.append((n, data, comp, enc))
    cfg = {"ver": ver, "shift": shift, "lf": r.choice(["g", "g", "g", "n"]), "attrs": r.choice(["n", "n", "c", "f"]),
           "crc": r.choice([0, 0, 1]), "tcomp": r.choice([0, 0, 1]), "defcomp": defcomp}
    if cfg["crc"] and cfg["attrs"] == "n":
        cfg["attrs"] = "c"          # ArchiveBuilder::generate_crcs(true) switches CRC32 attributes on
    return cfg, files


def cfg_tokens(c):
    return "%d %x %s %s %d %x" % (c["ver"], c["shift"], c["lf"], c["attrs"], c["crc"], c["defcomp"])


def entries_token(files):
    return ",".join("%s:%s:%s:%d" % (C.hexs(n.encode()), C.hexs(d), comp, enc) for n, d, comp, enc in files) or "-"


def run(tier, seed, replay=None):
    res = C.Result("C01", tier, seed)
    res.rule = ("file sets of 0..12 files (empty, 1..5 bytes, sector-1/sector/sector+1, several sectors; zero, random, periodic, sparse, text content; mixed-case, "
                "slash, long and non-ASCII names) x version V1..V4 x sector shift x method {none,zlib,bzip2,LZMA,sparse,PKWare} per file or default x "
                "{plain, encrypted, encrypted+fix-key} x sector checksums x attributes {none,CRC32,full} x listfile generate/none x table compression: "
                "build -> open -> read every file under 6 spellings + absent names + listing (oracle on the implementation); for V1/V2 without full attributes the "
                "model builder's bytes must equal the real archive byte for byte and the model reader must read the real archive; non-trivial = at least one file of "
                ">1 sector or compressed or encrypted; distinct = distinct case")
    res.assumptions = ["codec contract (Gamma-codec): sector payloads come from wow_mpq::compress and are inverted by table lookup in the model",
                       "NoCollide: no two folded names of a file set share (hashA, hashB)",
                       "V3/V4 (HET/BET, table compression) and full attributes (wall-clock times) are covered by the implementation oracle only"]
    mok, iok = C.standard_builds(res, "C01", ["impl_mpq", "impl_compress"])
    if not (mok and iok):
        return res.finish()
    r = C.rng(seed, "C01")
    big = tier == "thorough"
    base = os.path.join(C.CACHE, "c01")
    shutil.rmtree(base, ignore_errors=True)
    os.makedirs(base)
    ib = [C.bin_path("impl_mpq")]
    cases = [gen_case(r, i, big) for i in range(1200 if big else 160)]
    # ---- build with the implementation
    bl = []
    for i, (c, files) in enumerate(cases):
        bl.append("build %s/a%d.mpq %d %x %s %s %d %d %x %s" % (base, i, c["ver"], c["shift"], c["lf"], c["attrs"], c["crc"], c["tcomp"], c["defcomp"], entries_token(files)))
    bo = C.run_lines(ib, bl, timeout=3000)
    # ---- oracle: read back everything under every spelling
    rl, rmeta = [], []
    absent = ["never\\added.txt", "(signature)", "file0.tx"]
    for i, ((c, files), b) in enumerate(zip(cases, bo)):
        nontriv = any(len(d) > (512 << c["shift"]) or comp != "0" or enc for _, d, comp, enc in files)
        res.case("case%d %s %s" % (i, cfg_tokens(c), C.hashlib.sha1(entries_token(files).encode()).hexdigest()), nontrivial=nontriv)
        if b != "OK":
            if b in ("PANIC", "ABORT", "TIMEOUT"):
                res.failing.append(("build-crash", "ArchiveBuilder::build crashed: " + b, {"case": bl[i][:500]}))
            continue                        # "either reports an error or ..." - an error is allowed
        q = []
        for n, d, comp, enc in files:
            for s in spellings(r, n):
                q.append((s, n))
        for a in absent:
            q.append((a, None))
        rl.append("readall %s/a%d.mpq %s" % (base, i, ",".join(C.hexs(s.encode()) for s, _ in q)))
        rmeta.append((i, q))
    ro = C.run_lines(ib, rl, timeout=3000)
    stats = {"ok": 0, "build_err": sum(1 for b in bo if b != "OK")}
    for (i, q), out in zip(rmeta, ro):
        c, files = cases[i]
        content = {n: d for n, d, _, _ in files}
        meta = {n: (comp, enc) for n, _, comp, enc in files}
        case = {"build": bl[i][:600] + ("..." if len(bl[i]) > 600 else ""), "config": c, "files": [(n, len(d), comp, enc) for n, d, comp, enc in files]}
        if " | " not in out:
            res.failing.append(("open-failed", "archive written by the builder cannot be opened/read: " + out[:80], case))
            continue
        reads, lst = out.split(" | ")
        bad = None
        for (s, n), item in zip(q, reads.split(",")):
            got = item.split(">", 1)[1]
            if n is None:
                if got != "NOTFOUND":
                    bad = ("absent-name-resolved", "a name that was never added is not reported as not found: %r -> %s" % (s, got[:40]))
                    break
            else:
                exp = "OK:" + C.hexs(content[n])
                if got != exp:
                    comp, enc = meta[n]
                    kind = "multi" if len(content[n]) > (512 << c["shift"]) else "single"
                    bad = ("roundtrip-%s" % kind, "file %r (%d bytes, comp %s, enc %d, %s unit, V%d) read under spelling %r gives %s" % (n, len(content[n]), comp, enc, kind, c["ver"], s, got[:60]))
                    break
        if bad is None and c["lf"] == "g":
            exp = sorted(["%s:%x" % (C.hexs(n.replace("/", "\\").encode()), len(d)) for n, d, _, _ in files])
            got = [x for x in lst.split(",") if x and x != "-"]
            got_user = sorted(x for x in got if bytes.fromhex(x.split(":")[0]).decode("utf-8", "replace") not in ("(listfile)", "(attributes)"))
            specials = sorted(bytes.fromhex(x.split(":")[0]).decode("utf-8", "replace") for x in got if x not in got_user)
            want_specials = ["(listfile)"] + (["(attributes)"] if c["attrs"] != "n" else [])
            if lst == "NOLIST" or got_user != exp or specials != sorted(want_specials):
                bad = ("listing", "listing differs from the added names + special files (or sizes differ): got %d entries, specials %s" % (len(got), specials))
        if bad:
            res.failing.append((bad[0], bad[1], case))
        else:
            stats["ok"] += 1
    res.extra["oracle"] = stats
    # ---- model: V1/V2, attributes none/CRC32: byte-exact writer, reader on real bytes
    mcases = [i for i, ((c, files), b) in enumerate(zip(cases, bo)) if b == "OK" and c["ver"] <= 2 and c["attrs"] != "f"]
    needs = C.run_lines([C.MODELRUN], ["mneeds %s %s" % (cfg_tokens(cases[i][0]), entries_token(cases[i][1])) for i in mcases])
    # resolve codec requests with the implementation
    creq = sorted({x for n in needs if n != "-" for x in n.split(",")})
    cres = C.run_lines([C.bin_path("impl_compress")], ["comp %s %s" % tuple(x.split(".")) for x in creq])
    table = dict(zip(creq, cres))
    ml, rl2 = [], []
    for i, n in zip(mcases, needs):
        tab = ",".join("%s.%s" % (x, table[x]) for x in (n.split(",") if n != "-" else []) if table[x] not in ("ERR", "PANIC")) or "-"
        ml.append("mbuild %s %s %s" % (cfg_tokens(cases[i][0]), entries_token(cases[i][1]), tab))
    mo = C.run_lines([C.MODELRUN], ml, timeout=3000)
    mism = 0
    for i, l, m, n in zip(mcases, ml, mo, needs):
        real = open("%s/a%d.mpq" % (base, i), "rb").read()
        res.case("model%d" % i)
        if m != C.hexs(real):
            mism += 1
            if mism <= 3:
                mb = bytes.fromhex(m) if all(ch in "0123456789abcdef" for ch in m) and m != "-" else b""
                fd = next((k for k in range(min(len(mb), len(real))) if mb[k] != real[k]), min(len(mb), len(real)))
                res.broken.append(("correspondence", {"what": "model builder bytes differ from ArchiveBuilder output", "case": bl[i][:400], "model_len": len(mb), "impl_len": len(real),
                                                       "first_difference_at": fd, "model_result": m[:40]}))
        # model reader on the real bytes
        c, files = cases[i]
        names = [n2 for n2, _, _, _ in files] + ["never\\added.txt"]
        tab = ",".join("%s.%s" % (x, table[x]) for x in (n.split(",") if n != "-" else []) if table[x] not in ("ERR", "PANIC")) or "-"
        rl2.append((i, "mreadall %s %s %s" % (C.hexs(real), ",".join(C.hexs(x.encode()) for x in names), tab), names))
    mr = C.run_lines([C.MODELRUN], [x[1] for x in rl2], timeout=3000)
    ir = C.run_lines(ib, ["readall %s/a%d.mpq %s" % (base, i, ",".join(C.hexs(x.encode()) for x in names)) for i, _, names in rl2], timeout=3000)
    for (i, l, names), a, b in zip(rl2, ir, mr):
        if a != b:
            mism += 1
            if mism <= 6:
                res.broken.append(("correspondence", {"what": "model reader and Archive::read_file/list disagree on the same archive bytes", "case": bl[i][:400], "impl": a[:300], "model": b[:300]}))
    res.extra["model_cases"] = len(mcases)
    res.extra["correspondence_mismatches"] = mism
    res.extra["codec_requests"] = len(creq)
    res.sample({"case": bl[3][:300], "build": bo[3], "read": ro[0][:200] if ro else ""})
    res.traces = len(mcases) * 2
    shutil.rmtree(base, ignore_errors=True)
    return res.finish()
