"""C13 - M2, skin and anim files survive write -> parse, also across version conversion."""
import os, re
from . import common as C

CLEAN_TAIL = "2 2 2 2 2 3 0 3 302"          # particles, ribbons, texture/colour/transparency animations, global sequences, no views, bounding, mode 0x302


def first(diff):
    return re.sub(r"[^a-z_0-9]", "", diff.split(",")[0].lower()) or "x"


def run(tier, seed, replay=None):
    res = C.Result("C13", tier, seed)
    res.rule = ("generated models for the versions Vanilla, TBC, WotLK, Cataclysm, MoP (name of any length, 0..many sequences, bones, vertices, textures, materials, nine lookup tables, "
                "attachments, lights, cameras, particle and ribbon emitters, texture / colour / transparency animations, global sequences, collision data, key frames on the tracks, "
                "finite floats of extreme magnitude): write -> parse section by section equal, second write byte-identical, every header count equal to its list; conversion over all "
                "25 version pairs: content that both versions hold kept in the converted object and after write -> parse, same-version conversion the identity, M2Model::convert equal "
                "to M2Converter::convert; skin files (old and new layout) and anim files likewise; non-trivial = model with at least one non-empty section or a conversion; "
                "distinct = distinct command")
    res.assumptions = ["sections are compared as debug strings of offset-free clones of the library's structures",
                       "shapes whose round trip is a listed finding (textures with file names, events, embedded skins, header flag 0x8, versions after MoP, tracks without keys, upgrades "
                       "across version 264, short old-layout skins, skin centre / bounds, modern anim files with key frames, legacy anim files) are "
                       "exercised in cases of their own"]
    mok, iok = C.standard_builds(res, "C13", ["impl_m2"])
    if not (mok and iok):
        return res.finish()
    r = C.rng(seed, "C13")
    big = tier == "thorough"
    ib = [C.bin_path("impl_m2")]
    cases = []
    n = lambda: r.choice([0, 1, 2, 5])
    for i in range(800 if big else 36):
        ver = i % 5
        cases.append((None, "model %x %x %x %x %x %x %x %x %x %x 0 %x %x %s" % (ver, r.randrange(1, 0xffff), r.choice([0, 1, 5, 40, 300]), n(), n(), r.choice([0, 1, 4, 30]), n(), n(), n(), n(), n(), n(),
                                                                             " ".join("%x" % x for x in (n(), n(), n(), n(), n(), n(), 0, r.choice([0, 2]))) + " 302")))
    cases.append((None, "model 2 1 0 0 0 0 0 0 0 0 0 0 0 0 0 0 0 0 0 0 0 302"))
    # bone tracks sharing key-frame value arrays (identical tracks stored once)
    for i in range(60 if big else 5):
        cases.append((None, "model %x %x 3 2 %x 4 0 1 2 1 0 1 1 1 1 1 1 1 2 0 2 b0%x" % (i % 5, r.randrange(1, 0xfff), r.choice([3, 5, 8]), r.choice([2, 3, 4]))))
    # static cameras next to animated lights / ribbons / particles (sections whose key frames are placed after the cameras)
    for i in range(40 if big else 10):
        cases.append((None, "model %x %x 3 2 2 4 0 1 2 1 0 %x %x 1 1 1 1 1 2 0 2 23%02x" % (i % 5, r.randrange(1, 0xfff), r.choice([1, 2, 3]), r.choice([1, 2, 3]), r.choice([2, 3]))))
    # ... and bone tracks sharing timestamp arrays (with and without shared values)
    for i in range(60 if big else 10):
        cases.append((None, "model %x %x 3 2 %x 4 0 1 2 1 0 1 1 1 1 1 1 1 2 0 2 %s0%x" % (i % 5, r.randrange(1, 0xfff), r.choice([2, 3, 5, 8]), r.choice(["13", "1b"]), r.choice([2, 3, 4]))))
    for rep in range(6 if big else 1):
        for a in range(5):
            for b in range(5):
                if not big and (a + b) % 2 and a != b:
                    continue
                tag = "upgrade-264" if a <= 1 < b else None
                shape = "6 3 4 5 3 2 4 3 0 2 2" if rep == 0 else " ".join("%x" % r.choice([0, 1, 2, 5, 9]) for _ in range(8)) + " 0 %x %x" % (r.choice([0, 2]), r.choice([0, 2]))
                cases.append((tag, "conv %x %x %x %s %s" % (a, b, r.randrange(1, 0xfff), shape, CLEAN_TAIL)))
    for lay in (0, 1):
        for k in range(40 if big else 3):
            cases.append((None, "skin %x %x %x %x %x %x 0" % (lay, r.randrange(1, 999), r.choice([5, 8, 30]), 3 * r.choice([0, 2, 7]), 4 * r.choice([0, 2, 5]), r.choice([0, 1, 3]))))
    cases += [(None, "anim 1 %x %x %x 0" % (r.randrange(1, 99), k, 40)) for k in (0, 1, 3)]
    # listed findings
    cases += [("texture-names", "model 2 7 0 0 0 4 3 0 0 0 0 0 0"), ("texture-names", "model 2 7 0 0 0 0 3 0 0 0 0 0 0"), ("events", "model 2 9 0 0 0 0 0 0 0 0 2 2 0"),
              ("embedded-skins", "model 1 9 0 0 0 0 0 0 0 0 0 0 0 0 0 0 0 0 0 2 0 102"), ("header-flag-8", "model 2 1 3 0 0 0 0 0 0 0 0 0 0 - - - - - - - - - 8"),
              ("after-mop", "model 6 1 0 0 0 0 0 0 0 0 0 0 0"), ("after-mop", "model 5 b 6 3 4 5 3 2 4 3 0 2 2 2 2 2 2 2 3 0 3 302"),
              ("keyless-tracks", "model 2 9 5 2 3 4 0 2 3 2 0 2 2 2 2 2 2 2 2 2 2 0"),
              (None, "skin 0 1 8 6 8 2 2"), (None, "skin 1 1 8 6 8 2 2"), ("skin-short-old", "skin 0 1 3 6 8 0 0"), ("skin-center", "skin 1 1 8 6 8 0 3 4 1"),
              ("skin-bone-bytes", "skin 0 1 8 6 7 0 0"), ("anim-keyframes", "anim 1 1 1 40"), ("anim-legacy", "anim 0 1 1 40"), ("anim-legacy", "anim 0 1 0 0")]
    io = C.run_lines(ib, [c for _, c in cases], shards=C.NPROC, timeout=3000)
    stats = {"round_trips_equal": 0, "conversions_kept": 0}
    for (tag, c), o in zip(cases, io):
        kind = c.split(" ")[0]
        res.case(c, nontrivial=kind == "conv" or any(x not in ("0", "-") for x in c.split(" ")[4:14]))
        d = dict(x.split("=", 1) for x in o.split(" ") if "=" in x)
        case = {"command": c, "result": " ".join(x for x in o.split(" ") if not x.startswith(("W1=", "W=", "LISTS=")))[:600]}
        sfx = ("-" + tag) if tag else ""
        if not d:
            res.failing.append(("crash-%s%s" % (kind, sfx), "the runner reports %s" % o[:60], case))
            continue
        if kind != "conv":
            w1 = d.get("W1", "")
            if w1.startswith("WRITE"):
                res.failing.append(("write-fails-%s%s" % (kind, sfx), "the writer fails on a generated %s: %s" % (kind, w1[:80]), case))
                continue
            eq = d.get("EQ", "")
            if eq != "1":
                key = "parse-fails-%s" % kind if eq.startswith("PARSE") else "%s-differs-%s" % (kind, first(d.get("DIFF", "-")))
                res.failing.append((key + sfx, "write -> parse of a %s does not give the object back: %s" % (kind, (d.get("DIFF") if eq == "0" else eq)[:160]), case))
                continue
            if d.get("SAME") != "1":
                res.failing.append(("second-write-differs-%s%s" % (kind, sfx), "writing the parsed %s again gives different bytes" % kind, case))
                continue
            if kind != "anim" and d.get("HDR", "ok") != "ok":
                res.failing.append(("header-count-%s%s" % (kind, sfx), "header counts differ from the lists: %s" % d["HDR"][:120], case))
                continue
            stats["round_trips_equal"] += 1
        else:
            if not d.get("CONV", "").startswith("OK"):
                res.failing.append(("conversion-fails" + sfx, "conversion fails: %s" % d.get("CONV", "")[:100], case))
                continue
            if d.get("KEPT") != "1" or d.get("KEPT2") != "1":
                res.failing.append(("conversion-loses-%s%s" % (first(d.get("LOST", "-") if d.get("KEPT") != "1" else d.get("LOST2", "-")), sfx),
                                    "conversion loses content that both versions hold: LOST=%s LOST2=%s" % (d.get("LOST"), d.get("LOST2")), case))
                continue
            if d.get("IDENT") not in ("1", "-"):
                res.failing.append(("same-version-conversion-changes" + sfx, "converting to the same version changes the model", case))
                continue
            if d.get("DIRECT") != "1":
                res.failing.append(("convert-paths-differ" + sfx, "M2Model::convert and M2Converter::convert give different results", case))
                continue
            if d.get("SAME") != "1":
                res.failing.append(("converted-rewrite-differs" + sfx, "the converted model is not stable under write -> parse -> write (%s)" % d.get("DIFF", "")[:80], case))
                continue
            if d.get("HDR", "ok") != "ok":
                res.failing.append(("header-count-conv" + sfx, "header counts of the converted model differ from the lists: %s" % d["HDR"][:120], case))
                continue
            stats["conversions_kept"] += 1
    res.extra["checked"] = stats
    res.extra["cases"] = len(cases)
    res.sample({"command": cases[0][1], "result": " ".join(x for x in io[0].split(" ") if not x.startswith(("W1=", "LISTS=")))[:300]})
    res.traces = len(cases)
    return res.finish()
