"""C02 - archives interoperate with an independent implementation of the MPQ format."""
import bz2, os, shutil, zlib
from . import common as C
from . import c01


def resolve(reqs):
    """codec requests of the reference model, answered by CPython's zlib / bz2"""
    out = {}
    for k in reqs:
        p = k.split(".")
        try:
            if p[0] == "i":
                mask, payload, size = int(p[1], 16), bytes.fromhex(p[2]) if p[2] != "-" else b"", int(p[3], 16)
                if mask == 0x02:
                    d = zlib.decompress(payload)
                elif mask == 0x10:
                    d = bz2.decompress(payload)
                else:
                    raise ValueError("mask")
                out[k] = C.hexs(d)
            else:
                mask, plain = int(p[1], 16), bytes.fromhex(p[2]) if p[2] != "-" else b""
                c = zlib.compress(plain, 6) if mask == 0x02 else bz2.compress(plain) if mask == 0x10 else None
                out[k] = C.hexs(c) if c is not None else "ERR"
        except Exception:
            out[k] = "ERR"
    return out


def model_rounds(cmd_prefixes):
    """runs model commands that may answer NEED <requests>; resolves and repeats"""
    tables = [dict() for _ in cmd_prefixes]
    results = [None] * len(cmd_prefixes)
    pending = list(range(len(cmd_prefixes)))
    for _ in range(6):
        if not pending:
            break
        lines = [cmd_prefixes[i] + " " + (",".join("%s=%s" % kv for kv in tables[i].items()) or "-") for i in pending]
        outs = C.run_lines([C.MODELRUN], lines, shards=min(C.NPROC, len(lines)), timeout=3000)
        nxt = []
        for i, o in zip(pending, outs):
            if o.startswith("NEED "):
                tables[i].update(resolve(o[5:].split(",")))
                nxt.append(i)
            else:
                results[i] = o
        pending = nxt
    return results


def sep(name):
    return "\\" in name or "/" in name


def run(tier, seed, replay=None):
    res = C.Result("C02", tier, seed)
    res.rule = ("published-format subset: V1/V2, classic tables, methods none/zlib/bzip2, plain / encrypted / fix-key files, single- and multi-sector; direction A: "
                "ArchiveBuilder output is read by the extracted reference reader (codecs: CPython zlib/bz2); direction B: archives written by the reference writer are "
                "read by Archive::read_file/list, also after the first name of a probe chain has been deleted in the hash table; contents, listing and not-found answers are compared; non-trivial = file is compressed, encrypted or multi-sector; "
                "distinct = distinct case")
    res.assumptions = ["the reference (coq/Mpq/MpqRef.v) is my transcription of the published MPQ format, not a third-party program; its hash and cipher are the reference forms "
                       "proved equal to the model in C04", "CPython zlib/bz2 are the independent codecs on the reference side"]
    mok, iok = C.standard_builds(res, "C02", ["impl_mpq", "impl_crypt"])
    if not (mok and iok):
        return res.finish()
    r = C.rng(seed, "C02")
    big = tier == "thorough"
    base = os.path.join(C.CACHE, "c02")
    shutil.rmtree(base, ignore_errors=True)
    os.makedirs(base)
    ib = [C.bin_path("impl_mpq")]
    n = 500 if big else 80
    cases = []
    for i in range(n):
        c, files = c01.gen_case(r, 12 + i, big)
        while c["shift"] > (5 if big else 3):          # the extracted reference cipher is slow on 128 KiB sectors
            c, files = c01.gen_case(r, 12 + i, big)
        c.update(ver=r.choice([1, 2]), lf="g", attrs="n", crc=0, tcomp=0, defcomp=r.choice([0, 2, 0x10]))
        if i < 6:
            c2, files = c01.sweep_case(r, 1 + 2 * (i % 2))          # zlib / bzip2 break-even families
            c["defcomp"], c["shift"] = c2["defcomp"], 0
        files = [(nm, d, (comp if comp in ("d", "0", "2", "10") else "d"), enc) for nm, d, comp, enc in files]
        cases.append((c, files))

    def classify(name, enc, comp="d", n=1, defcomp=2, stored=None):
        """known interoperability classes; anything else is an unlisted violation.
        stored = (compressed size, flags) of the entry as the library reports it"""
        if not enc:
            return None
        if sep(name):
            return "encrypted-key-from-full-path"
        method = defcomp if comp == "d" else int(comp, 16)
        if method == 0 and n % 4 == 0:
            return None                 # whole dwords only, plain name: must interoperate
        if stored is not None and stored[1] & 0x01000000 and stored[0] % 4 == 0:
            return None                 # single unit stored as whole dwords
        return "encrypted-tail-bytes"   # some stored unit is not a whole number of dwords

    # ---- direction A: builder -> reference reader
    bl = ["build %s/a%d.mpq %d %x g n 0 0 %x %s" % (base, i, c["ver"], c["shift"], c["defcomp"], c01.entries_token(files)) for i, (c, files) in enumerate(cases)]
    bo = C.run_lines(ib, bl, timeout=3000)
    pref, idxs = [], []
    for i, (c, files) in enumerate(cases):
        if bo[i] != "OK":
            continue
        real = open("%s/a%d.mpq" % (base, i), "rb").read()
        names = [nm for nm, _, _, _ in files] + ["(listfile)", "never\\added.txt"]
        pref.append("refreadall %s %s" % (C.hexs(real), ",".join(C.hexs(x.encode()) for x in names)))
        idxs.append(i)
    outs = model_rounds(pref)
    szl = C.run_lines(ib, ["sizes %s/a%d.mpq %s" % (base, i, ",".join(C.hexs(nm.encode()) for nm, _, _, _ in cases[i][1]) or C.hexs(b"x")) for i in idxs])
    stored = {}
    for i, o in zip(idxs, szl):
        for (nm, _, _, _), it in zip(cases[i][1], o.split(",")):
            if "." in it:
                stored[(i, nm)] = (int(it.split(".")[0], 16), int(it.split(".")[1], 16))
    a_ok = 0
    for i, o in zip(idxs, outs):
        c, files = cases[i]
        res.case("A%d %s %s" % (i, c01.cfg_tokens(c), C.hashlib.sha1(c01.entries_token(files).encode()).hexdigest()),
                 nontrivial=any(comp != "0" or enc or len(d) > (512 << c["shift"]) for _, d, comp, enc in files))
        case = {"direction": "builder -> reference reader", "build": bl[i][:500], "config": c, "files": [(nm, len(d), comp, enc) for nm, d, comp, enc in files]}
        if o is None or o in ("OPEN-ERR",) or ">" not in o:
            res.failing.append(("ref-cannot-open", "reference reader cannot open / scan the builder's archive: %s" % (o or "")[:60], case))
            continue
        got = dict(x.split(">", 1) for x in o.split(","))
        good = True
        for nm, d, comp, enc in files:
            g = got.get(C.hexs(nm.encode()))
            if g != "OK:" + C.hexs(d):
                good = False
                key = classify(nm, enc, comp, len(d), c["defcomp"], stored.get((i, nm))) or "builder-output-not-conformant"
                if g == "FAIL:table" and key != "encrypted-key-from-full-path":
                    # the sector offset table itself does not decrypt to a table under the published key (file key - 1):
                    # not one of the listed deviations (those leave the table intact)
                    key = "builder-offset-table-not-conformant"
                res.failing.append((key, "reference reader does not get the content of %r (%d bytes, comp %s, enc %d) from the builder's archive: %s" % (nm, len(d), comp, enc, (g or "")[:40]), case))
        if got.get(C.hexs(b"never\\added.txt")) != "FAIL":
            res.failing.append(("absent-name", "reference reader resolves a name that was never added", case))
        a_ok += good
    # ---- direction B: reference writer -> library
    wpref, widx = [], []
    for i, (c, files) in enumerate(cases):
        hsize = 16
        while hsize < 2 * (len(files) + 2):
            hsize *= 2
        ents = ",".join("%s:%s:%s:%d" % (C.hexs(nm.replace("/", "\\").encode()), C.hexs(d), ("%x" % c["defcomp"]) if comp == "d" else comp, enc) for nm, d, comp, enc in files) or "-"
        wpref.append("refwrite %x %x %s" % (c["shift"], hsize, ents))
        widx.append(i)
    wouts = model_rounds(wpref)
    rl, rmeta = [], []
    for i, o in zip(widx, wouts):
        if not o or o.startswith(("ERR", "NEED", "EXC")):
            res.broken.append(("reference-writer", {"case": wpref[i][:200], "out": (o or "")[:100]}))
            continue
        with open("%s/r%d.mpq" % (base, i), "wb") as f:
            f.write(bytes.fromhex(o))
        names = [nm for nm, _, _, _ in cases[i][1]] + ["never\\added.txt"]
        rl.append("readall %s/r%d.mpq %s" % (base, i, ",".join(C.hexs(x.encode()) for x in names)))
        rmeta.append(i)
    ro = C.run_lines(ib, rl, timeout=3000)
    rsz = C.run_lines(ib, ["sizes %s/r%d.mpq %s" % (base, i, ",".join(C.hexs(nm.encode()) for nm, _, _, _ in cases[i][1]) or C.hexs(b"x")) for i in rmeta])
    rstored = {}
    for i, o in zip(rmeta, rsz):
        for (nm, _, _, _), it in zip(cases[i][1], o.split(",")):
            if "." in it:
                rstored[(i, nm)] = (int(it.split(".")[0], 16), int(it.split(".")[1], 16))
    b_ok = 0
    for i, o in zip(rmeta, ro):
        c, files = cases[i]
        res.case("B%d" % i)
        case = {"direction": "reference writer -> Archive::read_file", "reference_write": wpref[i][:400], "config": c, "files": [(nm, len(d), comp, enc) for nm, d, comp, enc in files]}
        if " | " not in o:
            res.failing.append(("lib-cannot-open-reference-archive", "the library cannot open a format-conformant archive: " + o[:60], case))
            continue
        reads, lst = o.split(" | ")
        got = dict(x.split(">", 1) for x in reads.split(","))
        good = True
        for nm, d, comp, enc in files:
            g = got.get(C.hexs(nm.encode()))
            if g != "OK:" + C.hexs(d):
                good = False
                key = classify(nm, enc, comp, len(d), c["defcomp"], rstored.get((i, nm))) or "lib-misreads-conformant-archive"
                res.failing.append((key, "the library does not read %r (%d bytes, comp %s, enc %d) from a format-conformant archive: %s" % (nm, len(d), comp, enc, (g or "")[:40]), case))
        if got.get(C.hexs(b"never\\added.txt")) != "NOTFOUND":
            res.failing.append(("absent-name", "the library resolves a name that is not in the reference archive", case))
        want = sorted(["%s:%x" % (C.hexs(nm.replace("/", "\\").encode()), len(d)) for nm, d, _, _ in files])
        gl = sorted(x for x in lst.split(",") if x and x not in ("-", "NOLIST") and bytes.fromhex(x.split(":")[0]) != b"(listfile)")
        if gl != want and good:
            res.failing.append(("listing-differs", "listing of a reference-written archive differs", dict(case, got=gl[:5], want=want[:5])))
        b_ok += good
    # ---- direction B, deleted hash entries: a reference-written archive in which the first name of a probe chain was deleted
    #      afterwards (entry = FFFFFFFF FFFFFFFF FFFF FFFF FFFFFFFE, as the format prescribes); the names behind it must still be found
    import struct
    from . import c06
    icr = [C.bin_path("impl_crypt")]
    by, _ = c06.collision_groups(icr[0], 16)
    del_cases = 0
    for grp in sorted(by.values(), key=len, reverse=True)[: (4 if big else 2)]:
        if len(grp) < 3:
            continue
        a_, t_, u_ = grp[0], grp[1], grp[2]
        fl = [(a_, b"deleted later " * 5), (t_, b"target content " * 7), (u_, b"third in the chain"), ("other.txt", b"elsewhere")]
        ents = ",".join("%s:%s:0:0" % (C.hexs(nm.encode()), C.hexs(d)) for nm, d in fl)
        o = model_rounds(["refwrite 0 10 %s" % ents])[0]
        if not o or o.startswith(("ERR", "NEED", "EXC")):
            res.broken.append(("reference-writer", {"case": "deleted-entry archive", "out": (o or "")[:100]}))
            continue
        raw = bytearray(bytes.fromhex(o))
        hpos, = struct.unpack_from("<I", raw, 16)
        hsz, = struct.unpack_from("<I", raw, 24)
        hk, ha, hb = C.run_lines(icr, ["hash 300 %s" % C.hexs(b"(hash table)"), "hash 100 %s" % C.hexs(a_.encode()), "hash 200 %s" % C.hexs(a_.encode())], shards=1)
        plain = bytearray(bytes.fromhex(C.run_lines(icr, ["decw %s %s" % (hk, bytes(raw[hpos:hpos + 16 * hsz]).hex())], shards=1)[0]))
        hit = [k for k in range(hsz) if struct.unpack_from("<II", plain, 16 * k) == (int(ha, 16), int(hb, 16))]
        if len(hit) != 1:
            res.broken.append(("reference-writer", {"case": "deleted-entry archive: entry of the first name not found", "hits": hit}))
            continue
        plain[16 * hit[0]:16 * hit[0] + 16] = b"\xff" * 12 + struct.pack("<I", 0xFFFFFFFE)
        raw[hpos:hpos + 16 * hsz] = bytes.fromhex(C.run_lines(icr, ["encw %s %s" % (hk, bytes(plain).hex())], shards=1)[0])
        pth = "%s/rdel%d.mpq" % (base, del_cases)
        with open(pth, "wb") as f:
            f.write(bytes(raw))
        del_cases += 1
        names = [a_, t_, u_, "other.txt"]
        lo = C.run_lines(ib, ["readall %s %s" % (pth, ",".join(C.hexs(x.encode()) for x in names))])[0]
        res.case("Bdel %s" % a_, nontrivial=True)
        got = dict(it.split(">", 1) for it in lo.split(" | ")[0].split(",") if ">" in it)
        case = {"direction": "reference writer -> Archive::read_file, first name of a probe chain deleted afterwards", "names": names, "library": lo[:300]}
        if got.get(C.hexs(a_.encode()), "").startswith("OK:"):
            res.failing.append(("lib-resolves-deleted-entry", "the library still resolves a name whose hash entry is marked deleted", case))
        for nm, d in fl[1:]:
            if got.get(C.hexs(nm.encode())) != "OK:" + C.hexs(d):
                res.failing.append(("lib-misreads-behind-deleted-entry", "the library does not read %r, which sits behind a deleted entry of its probe chain in a format-conformant archive" % nm, case))
                break
    res.extra["direction_B_deleted_entry_archives"] = del_cases
    res.extra["direction_A_fully_read"] = a_ok
    res.extra["direction_B_fully_read"] = b_ok
    res.extra["cases"] = n
    res.sample({"A": bl[7][:200], "ref_read": (outs[7] or "")[:160] if len(outs) > 7 else ""})
    res.sample({"B": wpref[7][:200], "lib_read": ro[7][:160] if len(ro) > 7 else ""})
    res.traces = len(idxs) + len(rmeta)
    if not os.environ.get("VERIF_KEEP"):
        shutil.rmtree(base, ignore_errors=True)
    return res.finish()
