"""C06 - in-place archive modification behaves as a persistent name -> bytes map."""
import itertools, os, shutil
from . import common as C

CONTENTS = [b"", b"x", b"hello hello hello hello hello hello", bytes(range(256)) * 3, bytes(700), b"short"]


def collision_groups(ib_crypt, size=16):
    """candidate names grouped by their home slot in a `size`-slot table, plus the home slots of the fixed names"""
    cands = ["n%03d.dat" % i for i in range(400)]
    fixed = ["Dir\\Other.txt", "x/y.bin", "untouched.bin", "keep\\untouched.bin", "(listfile)", "(attributes)"]
    outs = C.run_lines([ib_crypt], ["hash 0 %s" % C.hexs(c.encode()) for c in cands + fixed], shards=1)
    by = {}
    for c, o in zip(cands, outs):
        by.setdefault(int(o, 16) % size, []).append(c)
    homes = {int(o, 16) % size for o in outs[len(cands):]}
    return by, homes


def find_colliding(ib_crypt, want, size=16):
    """names whose home slot in a `size`-slot table coincide (to force probe chains)"""
    by, _ = collision_groups(ib_crypt, size)
    best = max(by.values(), key=len)
    return best[:want]


def quiet_groups(ib_crypt, busy, size=16, count=2):
    """further collision groups (3 names each) whose home slot and both neighbours are free in the initial archive:
    probe chains that start after a never-used slot (the situation in which tombstone handling matters)"""
    by, _ = collision_groups(ib_crypt, size)
    busy = set(busy)
    out = []
    for h in sorted(by, key=lambda h: -len(by[h])):
        if len(by[h]) < 3:
            continue
        around = {(h + d) % size for d in (-1, 0, 1)}
        if around & busy:
            continue
        out.append(by[h][:3])
        busy |= around | {(h + 2) % size}
        if len(out) == count:
            break
    return out


def classify(ver, ops, outcome):
    """known defect classes of MutableArchive, by root cause"""
    if ver >= 3 and any(o[0] in ("a", "r", "m") for o in ops):
        return "v3v4-modified-archive-unreadable"
    # renaming an encrypted file keeps the data encrypted under the key of the old name
    enc_names = set()
    for o in ops:
        if o[0] == "a" and o[4] in ("1", "2"):
            enc_names.add(o[1])
        elif o[0] == "a":
            enc_names.discard(o[1])
        elif o[0] == "m" and o[1] in enc_names:
            return "rename-of-encrypted-file"
    return None


def extra_names(h, sp_reads):
    """names the history adds that are not in the query list (fill*.bin): listed iff the add was applied"""
    return []


def run(tier, seed, replay=None):
    res = C.Result("C06", tier, seed)
    res.rule = ("histories of add / replace / remove / rename / compact / flush on real archives (V1..V4, with listfile, 16-slot hash table, names that collide "
                "on their home slot, in one group next to occupied slots and in further groups with never-used slots on both sides): every history of length <=2 over a 3-name alphabet (<=3 thorough), every history of length 4 over {add second, add third, remove first, replace second} and every history of length 3 over these plus {remove second, add second without replacement, rename second to third} on chains of three colliding names, plus seeded histories of up to 40 operations incl. more "
                "additions than free slots; each history runs in its own process under a 10 s watchdog, then the archive is closed, reopened and every name read; "
                "per-operation outcomes and the final contents are compared with the extracted specification map; non-trivial = history has >=2 operations; distinct = distinct history")
    res.assumptions = ["crash-free execution (crashes during modification are not part of this property; C12 covers build/compact only)",
                       "the concrete block store of MutableArchive (offsets, table rewrite) is not modelled: its refinement to the specification is checked by execution, "
                       "the hash-table level is proved"]
    mok, iok = C.standard_builds(res, "C06", ["impl_mpq", "impl_crypt"])
    if not (mok and iok):
        return res.finish()
    r = C.rng(seed, "C06")
    big = tier == "thorough"
    base = os.path.join(C.CACHE, "c06")
    shutil.rmtree(base, ignore_errors=True)
    os.makedirs(base)
    ib = C.bin_path("impl_mpq")
    coll = find_colliding(C.bin_path("impl_crypt"), 5)
    by, _ = collision_groups(C.bin_path("impl_crypt"))
    home_a = next(h for h in by if coll[0] in by[h])
    present = ["Dir\\Other.txt", "keep\\untouched.bin", "(listfile)"]
    ph = C.run_lines([C.bin_path("impl_crypt")], ["hash 0 %s" % C.hexs(c.encode()) for c in present], shards=1)
    groups = quiet_groups(C.bin_path("impl_crypt"), {int(o, 16) % 16 for o in ph} | {home_a, (home_a + 1) % 16})
    names = coll + ["Dir\\Other.txt", "x/y.bin", "untouched.bin"]     # the last is a substring of an initial name
    for g in groups:
        names += g
    initial = [(names[0], CONTENTS[2], "2", 0), (names[5], CONTENTS[3], "0", 0), ("keep\\untouched.bin", bytes(range(200)), "2", 0)]
    initial += [(g[0], CONTENTS[5], "0", 0) for g in groups]
    # source archives per version
    srcs = {}
    bl = []
    for ver in (1, 2, 3, 4):
        ents = ",".join("%s:%s:%s:%d" % (C.hexs(n.encode()), C.hexs(d), comp, enc) for n, d, comp, enc in initial)
        bl.append("build %s/src%d.mpq %d 3 g n 0 0 2 %s" % (base, ver, ver, ents))
        srcs[ver] = "%s/src%d.mpq" % (base, ver)
    if C.run_lines([ib], bl, shards=1) != ["OK"] * 4:
        res.broken.append(("archive-build", {}))
        return res.finish()

    def op_add(n, ci, comp="0", enc="0", rep="1"):
        return ("a", C.hexs(n.encode()), C.hexs(CONTENTS[ci]), comp, enc, rep)
    alpha = []
    for n in names[:3]:
        alpha += [op_add(n, 1), op_add(n, 2, "2"), op_add(n, 4, "0", "0", "0"), ("r", C.hexs(n.encode()))]
    alpha += [op_add(names[7], 1), ("r", C.hexs(names[7].encode()))]
    alpha += [("m", C.hexs(names[0].encode()), C.hexs(names[1].encode())), ("m", C.hexs(names[1].encode()), C.hexs(names[2].encode())), ("c",), ("f",)]
    hist = [[]]
    for L in ((1, 2, 3) if big else (1, 2)):
        hist += [list(t) for t in itertools.product(alpha, repeat=L)]
    # (every history of length <= 2 runs in the quick tier too: sampling them left detections to the luck of the random histories)
    # chains of three colliding names: every history of length 4 over {add second, add third, remove first, replace second}
    for g in [coll[:3]] + [g for g in groups[:1]]:
        four = [op_add(g[1], 1), op_add(g[2], 2, "2"), ("r", C.hexs(g[0].encode())), op_add(g[1], 5, "0", "0", "1")]
        hist += [list(t) for t in itertools.product(four, repeat=4)]
        # and every history of length 3 that also removes, renames or re-adds (without replacement) the second name: the operations
        # that have to FIND a name stored behind the slot of a removed one
        seven = four + [("r", C.hexs(g[1].encode())), op_add(g[1], 4, "0", "0", "0"), ("m", C.hexs(g[1].encode()), C.hexs(g[2].encode()))]
        hist += [list(t) for t in itertools.product(seven, repeat=3)]
    # the same short histories on collision groups whose probe chains have never-used slots on both sides
    for gi, g in enumerate(groups):
        ag = []
        for n in g:
            ag += [op_add(n, 1), op_add(n, 2, "2"), ("r", C.hexs(n.encode()))]
        ag += [("m", C.hexs(g[0].encode()), C.hexs(g[1].encode())), ("f",)]
        for L in ((1, 2, 3) if (big and gi == 0) else (1, 2)):
            hist += [list(t) for t in itertools.product(ag, repeat=L)]
    for _ in range(400 if big else 60):
        h = []
        for _ in range(r.randrange(3, 14)):
            k = r.random()
            n = r.choice(names)
            if k < 0.5:
                h.append(op_add(n, r.randrange(len(CONTENTS)), r.choice(["0", "2", "10"]), r.choice(["0", "0", "0", "1", "2"]), r.choice(["0", "1", "1"])))
            elif k < 0.7:
                h.append(("r", C.hexs(n.encode())))
            elif k < 0.85:
                h.append(("m", C.hexs(n.encode()), C.hexs(r.choice(names).encode())))
            elif k < 0.93:
                h.append(("f",))
            else:
                h.append(("c",))
        hist.append(h)
    # more additions than free hash slots (16-slot table): must terminate
    many = [op_add("fill%02d.bin" % i, 1) for i in range(40)]
    hist.append(many)
    query = names + ["keep\\untouched.bin", "absent.txt"] + ["fill%02d.bin" % i for i in range(40)]
    qhex = ",".join(C.hexs(q.encode()) for q in query)
    lines, meta = [], []
    for hi, h in enumerate(hist):
        for ver in ((1, 2, 3, 4) if (hi % 4 == 0 or len(h) > 2) else (1 + hi % 2,)):
            work = "%s/w%d_%d.mpq" % (base, hi, ver)
            shutil.copyfile(srcs[ver], work)
            ops = ",".join(".".join(o) for o in h) or "-"
            lines.append("modify %s %s %s" % (work, ops, qhex))
            meta.append((hi, ver, h))
    outs = C.run_each([ib], lines, timeout=10)
    init_tok = ",".join("%s:%s" % (C.hexs(n.encode()), C.hexs(d)) for n, d, _, _ in initial)
    # an operation may fail for want of a free hash slot; the property then only demands that
    # the map is unchanged, so the specification is run without the operations that failed so
    eff, cap = [], []
    for (hi, ver, h), o in zip(meta, outs):
        oc = o.split(" | ")[0].split(",") if " | " in o else []
        skip = [k for k, x in enumerate(oc) if x == "ERR-HashTable" and k < len(h) and h[k][0] in ("a", "m")]
        eff.append([x for k, x in enumerate(h) if k not in skip])
        cap.append(skip)
    sl = ["specrun %s %s %s" % (init_tok, ",".join(".".join(o) for o in h) or "-", qhex) for h in eff]
    spec = C.run_lines([C.MODELRUN], sl)
    stats = {}
    for (hi, ver, h), l, o, sp, skipped in zip(meta, lines, outs, spec, cap):
        hs = ",".join(".".join(x[:2] + tuple("<%d>" % (len(y) // 2) if len(y) > 24 else y for y in x[2:])) for x in h)
        res.case("V%d %s" % (ver, C.hashlib.sha1(l.split(" ", 2)[2].encode()).hexdigest()), nontrivial=len(h) >= 2)
        sp_out, sp_reads = sp.split(" | ")
        case = {"version": ver, "history": hs, "ops": len(h), "initial": [n for n, _, _, _ in initial], "command": "modify <copy of src%d.mpq> ..." % ver}
        verdict = None
        if o.startswith(("TIMEOUT", "ABORT", "PANIC")):
            verdict = ("does-not-terminate" if o == "TIMEOUT" else "crash", "history does not complete: " + o[:40])
        else:
            parts = o.split(" | ")
            if len(parts) < 2 or parts[1].startswith("REOPEN"):
                verdict = ("reopen-fails", "archive cannot be reopened after the history: " + o[:100])
            else:
                got_out = ["OK" if x == "OK" else "ERR" for k, x in enumerate(parts[0].split(",")) if k not in skipped] if parts[0] != "-" else []
                want_out = sp_out.split(",") if sp_out != "-" else []
                if got_out != want_out:
                    k = next((i for i, (a, b) in enumerate(zip(got_out, want_out)) if a != b), -1)
                    verdict = ("outcome-differs", "operation %d reports %s, the map says %s" % (k, parts[0].split(",")[k] if k >= 0 else "?", want_out[k] if k >= 0 else "?"))
                elif ver <= 2 and len(parts) > 2 and parts[2] != "NOLIST" and \
                        sorted({bytes.fromhex(x).decode().replace("/", "\\").upper() for x in parts[2].split(",") if x} - {"(LISTFILE)", "(ATTRIBUTES)"}) != \
                        sorted({q.replace("/", "\\").upper() for q, item in zip(query, sp_reads.split(",")) if not item.endswith("NOTFOUND")} | set(extra_names(h, sp_reads))):
                    verdict = ("listing-differs", "after reopen the listing is not the set of names in the map: " + str([bytes.fromhex(x).decode() for x in parts[2].split(",") if x][:8]))
                elif parts[1] != sp_reads:
                    g = dict(x.split(">", 1) for x in parts[1].split(","))
                    w = dict(x.split(">", 1) for x in sp_reads.split(","))
                    bad = [bytes.fromhex(k).decode() for k in w if g.get(k) != w[k]]
                    verdict = ("content-differs", "after reopen %s differ(s) from the map (e.g. got %s, want %s)" % (bad[:3], g.get(C.hexs(bad[0].encode()), "")[:30], w[C.hexs(bad[0].encode())][:30]))
        stats[verdict[0] if verdict else "agree"] = stats.get(verdict[0] if verdict else "agree", 0) + 1
        if verdict:
            cls = classify(ver, h, verdict[0])
            key = cls or verdict[0]
            res.failing.append((key, "V%d, %d ops: %s" % (ver, len(h), verdict[1]), dict(case, verdict=verdict[0], impl=o[:300], spec=sp[:300])))
    res.extra["outcomes"] = stats
    res.extra["histories"] = len(hist)
    res.extra["colliding_names"] = coll
    res.extra["quiet_collision_groups"] = groups
    res.sample({"history": ",".join(".".join(x)[:40] for x in meta[30][2]), "version": meta[30][1], "impl": outs[30][:160], "spec": spec[30][:160]})
    res.traces = len(lines)
    shutil.rmtree(base, ignore_errors=True)
    return res.finish()
