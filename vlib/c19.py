"""C19 - the StormLib-style C API is memory-safe and agrees with the Rust API on any history."""
import os, re, shutil
from . import common as C
from . import c01


def err_names():
    """numeric error codes of the C API, read from its source"""
    src = open("/repo/ffi/storm-ffi/src/lib.rs").read()
    want = {"ERROR_INVALID_HANDLE": "Einvalid_handle", "ERROR_FILE_NOT_FOUND": "Enot_found", "ERROR_NO_MORE_FILES": "Eno_more_files", "ERROR_INVALID_PARAMETER": "Einvalid_parameter"}
    out = {}
    for k, v in want.items():
        m = re.search(r"const %s: u32 = (\d+);" % k, src)
        if m:
            out["E" + m.group(1)] = v
    return out


def gen_history(r, nworld, names, n):
    """call history with live, stale, forged and wrong-kind handles; tracks an approximation of the handle counter"""
    calls = []
    nxt = 1
    archs, files, finds, dead = [], [], [], []
    allnames = names + [b"no\\such.file", b"NOPE"]

    def pick(live):
        x = r.random()
        if live and x < 0.72:
            return r.choice(live)
        if dead and x < 0.82:
            return r.choice(dead)
        if x < 0.9:
            return r.choice((archs + files + finds) or [0])          # wrong kind of handle
        return r.choice([0, nxt, nxt + 1, nxt + 7, 0xffffffff, 0x7fffffffffff])

    for _ in range(n):
        k = r.random()
        if k < 0.12 or not archs:
            a = r.choice(list(range(nworld)) + [nworld + 1])
            calls.append("o.%x" % a)
            if a < nworld:
                archs.append(nxt)
                nxt += 1
        elif k < 0.18:
            hh = pick(archs)
            calls.append("c.%x" % hh)
            if hh in archs:
                archs.remove(hh)
                dead.append(hh)
                # its files and searches die with it (tracked roughly: they move to the stale pool)
        elif k < 0.34:
            hh = pick(archs)
            nm = r.choice(allnames)
            nm = nm.upper() if r.random() < 0.15 else nm
            calls.append("of.%x.%s" % (hh, C.hexs(nm)))
            if hh in archs and nm.lower() in [x.lower() for x in names]:
                files.append(nxt)
                nxt += 1
        elif k < 0.40:
            hh = pick(files)
            calls.append("cf.%x" % hh)
            if hh in files:
                files.remove(hh)
                dead.append(hh)
        elif k < 0.62:
            calls.append("rd.%x.%x" % (pick(files), r.choice([0, 1, 2, 7, 64, 300, 5000])))
        elif k < 0.72:
            off = r.choice([0, 1, -1, 5, -5, 100, -100, 100000, -100000, 2 ** 31 - 1, -2 ** 31, 2 ** 33, -2 ** 33])
            calls.append("sk.%x.%d.%x" % (pick(files), off, r.choice([0, 1, 2, 2, 3, 9])))
        elif k < 0.76:
            calls.append("sz.%x" % pick(files))
        elif k < 0.82:
            calls.append("hs.%x.%s" % (pick(archs), C.hexs(r.choice(allnames))))
        elif k < 0.88:
            hh = pick(archs)
            mask = r.choice([b"*", b"*.*", b"*.txt", b"a*", b"a*.txt", b"*b*", b"?.txt", b"dir\\*", b"*\\*.bin", b"nomatch*", b"A*.TXT", b"a*t", b"*a.txt", b"??.*"])
            calls.append("ff.%x.%s" % (hh, C.hexs(mask)))
            if hh in archs:
                finds.append(nxt)      # may not have been issued (no match): an approximation only
                nxt += 1
        elif k < 0.96:
            calls.append("fn.%x" % pick(finds))
        else:
            hh = pick(finds)
            calls.append("fc.%x" % hh)
            if hh in finds:
                finds.remove(hh)
                dead.append(hh)
    return calls


def run(tier, seed, replay=None):
    res = C.Result("C19", tier, seed)
    res.rule = ("random call histories over {open, close, open-file, close-file, read, seek, size, has-file, find-first/next/close} with live, closed, never-issued, null and wrong-kind "
                "handle values, buffer sizes 0..5000 and seeks far beyond both ends run on the real C API (each history in a fresh process, every buffer between guard zones) and on "
                "the extracted handle-table model fed with the Rust API's view of the same archives: every answer (handle, bytes, size, name, error class) must agree and no guard "
                "byte may change; buffer-size sweeps of SFileGetArchiveName / SFileGetFileName / SFileGetFileInfo and names longer than MAX_PATH; N threads sharing one archive "
                "handle and file handles under a watchdog (crash, deadlock, content on private handles); non-trivial = history with a stale or forged handle; distinct = distinct history")
    res.assumptions = ["the handle-table model is the specification: the property's statement plus the Rust API's view (Archive::list / read_file) of the archives",
                       "freedom from data races is not proved: the multi-threaded runs are executions under a watchdog", "the archive-modifying calls of the C API are outside the model (C06 covers MutableArchive)"]
    mok, iok = C.standard_builds(res, "C19", ["impl_mpq", "impl_ffi"])
    if not (mok and iok):
        return res.finish()
    r = C.rng(seed, "C19")
    big = tier == "thorough"
    base = os.path.join(C.CACHE, "c19")
    shutil.rmtree(base, ignore_errors=True)
    os.makedirs(base)
    im, fi = [C.bin_path("impl_mpq")], [C.bin_path("impl_ffi")]
    codes = err_names()
    if len(codes) != 4:
        res.broken.append(("translator", {"what": "error constants not found in storm-ffi source", "found": codes}))
        return res.finish()
    # ---- archives
    sets = [[("a.txt", b"hello world, this is a.txt " * 9), ("ab.txt", b"x" * 700), ("dir\\b.bin", bytes(range(256)) * 3), ("dir\\sub\\c.dat", b""), ("Z.TXT", b"upper")],
            [("a.txt", b"other archive"), ("only.here", c01.gen_content(r, 1, 1500)), ("t.txt", b"t")],
            [("x.bin", c01.gen_content(r, 2, 3000))]]
    bl = []
    for i, fs in enumerate(sets):
        bl.append("build %s/w%d.mpq %d 0 g n 0 0 2 %s" % (base, i, 1 + i % 2, c01.entries_token([(n, d, "d", 0) for n, d in fs])))
    longname = "very\\" + "l" * 300 + "\\" + "n" * 40 + ".txt"
    bl.append("build %s/long.mpq 1 0 g n 0 0 0 %s" % (base, c01.entries_token([(longname, b"long name content", "0", 0), ("s.txt", b"s", "0", 0)])))
    bo = C.run_lines(im, bl)
    if any(o != "OK" for o in bo):
        res.broken.append(("setup", {"out": bo}))
        return res.finish()
    paths = ["%s/w%d.mpq" % (base, i) for i in range(len(sets))]
    worlds = C.run_lines(fi, ["world " + p for p in paths])
    if any(":" not in w for w in worlds):
        res.broken.append(("setup", {"world": [w[:80] for w in worlds]}))
        return res.finish()
    world_tok = ";".join(worlds)
    names = sorted({bytes.fromhex(e.split(":")[0]) for w in worlds for e in w.split(",")})
    # ---- histories
    nh = 1500 if big else 300
    hists = []
    fixed = [  # closing an archive takes its files and searches with it, and only those
        ["o.0", "o.1", "of.1.%s" % C.hexs(b"a.txt"), "of.2.%s" % C.hexs(b"a.txt"), "ff.1.2a", "ff.2.2a", "c.1", "rd.3.5", "rd.4.5", "fn.5", "fn.6", "fc.5", "fc.6", "cf.3", "cf.4", "c.1", "c.2"],
        ["o.0", "of.1.%s" % C.hexs(b"ab.txt"), "rd.2.12c", "rd.2.12c", "rd.2.12c", "rd.2.1", "sk.2.-1.2", "rd.2.9", "sk.2.-5000.1", "rd.2.3", "sk.2.0.0", "sz.2", "rd.2.0", "cf.2", "rd.2.1", "sz.2", "sk.2.0.0"],
        ["c.0", "c.1", "cf.1", "rd.1.10", "fn.1", "fc.0", "o.7", "of.1.%s" % C.hexs(b"a.txt"), "hs.1.%s" % C.hexs(b"a.txt")],
        ["o.0", "ff.1.%s" % C.hexs(b"a*.txt"), "fn.2", "fn.2", "fn.2", "ff.1.%s" % C.hexs(b"nomatch*"), "ff.1.%s" % C.hexs(b"*.txt"), "fn.3", "fn.3", "fn.3", "fn.3", "fc.3", "fn.3"],
    ]
    for f in fixed:
        hists.append(f)
    for i in range(nh):
        hists.append(gen_history(r, len(paths), names, r.choice([6, 15, 40, 80])))
    il = ["hist %s %s" % (",".join(paths), ",".join(h)) for h in hists]
    ml = ["ffihist %s %s" % (world_tok, ",".join(h)) for h in hists]
    io = C.run_lines(fi, il, shards=C.NPROC, timeout=1500)
    mo = C.run_lines([C.MODELRUN], ml, shards=C.NPROC, timeout=1500)
    kinds = {}
    agree = 0
    for hcalls, a, m in zip(hists, io, mo):
        stale = any(x.split(".")[0] in ("c", "cf", "fc") for x in hcalls)
        res.case(",".join(hcalls), nontrivial=stale)
        case = {"archives": [b[:200] for b in bl[:len(paths)]], "history": ",".join(hcalls)[:1500]}
        if a in ("ABORT", "HANG", "PANIC", "TIMEOUT") or a.startswith("ABORT"):
            res.failing.append(("crash-%s" % a.split("-")[0].lower(), "the C API %s on a call history" % a, case))
            continue
        at, mt = a.split(","), m.split(",")
        if len(at) != len(hcalls) or len(mt) != len(hcalls):
            res.broken.append(("correspondence", {"what": "answer count differs", "impl": a[:200], "model": m[:200]}))
            continue
        ok = True
        for idx, (c, x, y) in enumerate(zip(hcalls, at, mt)):
            kinds[c.split(".")[0]] = kinds.get(c.split(".")[0], 0) + 1
            if "GUARD" in x or "OUTSIDE" in x:
                res.failing.append(("writes-outside-buffer", "call %s wrote outside the caller's buffer (%s)" % (c, x), dict(case, call_index=idx)))
                ok = False
                break
            x2 = codes.get(x, x)
            if x2 != y:
                kind = c.split(".")[0]
                # which closed archive did the handle belong to? (classification only)
                key = "search-handle-survives-archive-close" if kind in ("fn", "fc") and y == "Einvalid_handle" and not x.startswith("E") else \
                      "file-handle-survives-archive-close" if kind in ("rd", "sk", "sz", "cf") and y == "Einvalid_handle" and not x.startswith("E") else "c-api-disagrees-%s" % kind
                res.failing.append((key, "call #%d %s: C API answers %s, the model of the Rust API's view answers %s" % (idx, c, x[:60], y[:60]), dict(case, call_index=idx)))
                ok = False
                break
        agree += ok
    res.extra["histories_agreeing"] = "%d/%d" % (agree, len(hists))
    res.extra["calls_by_kind"] = kinds
    # ---- buffer-size sweeps and long names (oracle on the real API)
    sweeps = []
    plen = len(paths[0])
    sw = ["o.0"] + ["an.1.%x" % n for n in list(range(0, 6)) + list(range(plen - 3, plen + 4)) + [400]] + ["of.1.%s" % C.hexs(b"ab.txt"), "gn.2"] + \
         ["gi.%x.%x.%x" % (hh, cls, n) for hh in (1, 2, 9) for cls in (1, 2, 3, 4, 7, 10, 99) for n in (0, 1, 3, 4, 7, 8, 16)]
    lg = ["o.0", "ff.1.2a", "fn.2", "fn.2", "of.1.%s" % C.hexs(longname.encode()), "gn.3", "rd.3.40", "ff.1.%s" % C.hexs(b"very*"), "fc.2"]
    so = C.run_lines(fi, ["hist %s %s" % (paths[0], ",".join(sw)), "hist %s/long.mpq %s" % (base, ",".join(lg))], timeout=300)
    for nm, calls, o in (("sizes", sw, so[0]), ("long-names", lg, so[1])):
        res.case("sweep " + nm, nontrivial=True)
        case = {"history": ",".join(calls)[:1200], "answers": o[:600]}
        if o.startswith(("ABORT", "HANG", "PANIC")):
            res.failing.append(("crash-%s" % o.split("-")[0].lower(), "the C API %s on the %s sweep" % (o, nm), case))
            continue
        toks = o.split(",")
        for c, x in zip(calls, toks):
            if "GUARD" in x or "OUTSIDE" in x:
                res.failing.append(("writes-outside-buffer", "call %s wrote outside the caller's buffer / returned a pointer outside it (%s)" % (c[:40], x), case))
                break
            if c.startswith("an."):
                n = int(c.split(".")[2], 16)
                want = ("S" + C.hexs(paths[0].encode())) if n >= plen + 1 else None
                if (want and x != want) or (not want and not x.startswith("E")):
                    res.failing.append(("archive-name-buffer", "SFileGetArchiveName with a %d-byte buffer for a %d-byte path answers %s" % (n, plen, x[:40]), case))
                    break
    # ---- modifying calls: the same history through the C API and through the Rust API
    mnames = [b"one.txt", b"Dir\\two.bin", b"three.dat", b"dir/four.txt"]
    mdata = [b"", b"x", b"hello world " * 20, bytes(range(256)) * 3]

    def mop():
        k = r.random()
        if k < 0.55:
            return "a.%s.%s.%x.%x" % (C.hexs(r.choice(mnames)), C.hexs(r.choice(mdata)) or "-", r.choice([0, 0x80000000, 0x80000000, 0x80010000, 0x80030000]), r.choice([0, 2, 2, 0x10]))
        if k < 0.7:
            return "r.%s" % C.hexs(r.choice(mnames))
        if k < 0.82:
            return "m.%s.%s" % (C.hexs(r.choice(mnames)), C.hexs(r.choice(mnames + [b"renamed.bin"])))
        return r.choice(["f", "c"])
    ml_ = []
    for i in range(60 if big else 16):
        dd = os.path.join(base, "mod%d" % i)
        os.makedirs(dd, exist_ok=True)
        ml_.append("modhist %s %s" % (dd, ",".join(mop() for _ in range(r.randrange(1, 9)))))
    mo_ = C.run_lines(fi, ml_, shards=min(C.NPROC, len(ml_)), timeout=900)
    for c, o in zip(ml_, mo_):
        res.case(c.replace(base, "<dir>"), nontrivial=True)
        if not o.startswith("OK"):
            res.failing.append(("modifying-calls-%s" % o.split(" ")[0].lower(), "the modifying calls of the C API and the Rust API disagree on a history: %s" % o[:120], {"command": c.replace(base, "<dir>")[:500]}))
    # ---- SFileEnumFiles / locale / last-error setters
    eo = C.run_lines(fi, ["enum " + p_ for p_ in paths], shards=1, timeout=300)
    for p_, o in zip(paths, eo):
        res.case("enum " + os.path.basename(p_), nontrivial=True)
        if not o.startswith("OK"):
            res.failing.append(("enum-files-%s" % o.split(" ")[0].lower(), "SFileEnumFiles / SFileSetLocale / SFileSetLastError: %s" % o[:80], {"command": "enum <%s>" % os.path.basename(p_)}))
    # ---- SFileExtractFile: several members in turn to the same local path (longer ones first, missing names in between)
    xl = []
    for wi, pth in enumerate(paths):
        wd = {bytes.fromhex(e.split(":")[0]): len(e.split(":")[1]) for e in worlds[wi].split(",") if ":" in e and not e.split(":")[1].startswith("ERR")}
        nm = sorted(wd, key=lambda n: -wd[n])
        if len(nm) < 2:
            continue
        seqs = [nm, nm[::-1], [nm[0], b"no\\such.file", nm[-1], nm[0]]] + [r.sample(nm, len(nm)) for _ in range(3 if big else 1)]
        for k, sq in enumerate(seqs):
            xl.append("xtract %s %s %s" % (pth, os.path.join(base, "x%d_%d.out" % (wi, k)), ",".join(C.hexs(n if isinstance(n, bytes) else n.encode()) for n in sq)))
    xo = C.run_lines(fi, xl, shards=min(C.NPROC, len(xl)), timeout=600)
    for c, o in zip(xl, xo):
        res.case(c.replace(base, "<dir>"), nontrivial=True)
        bad = [x for x in o.split(",") if x not in ("ok", "refused")]
        if bad:
            res.failing.append(("extract-file-%s" % bad[0].split(":")[0].lower(), "SFileExtractFile to one local path in turn: %s" % o[:120], {"command": c.replace(base, "<dir>")[:400]}))
    # ---- threads
    st = []
    for th in ([2, 4, 8, 16] if big else [2, 4, 8]):
        for sd in range(4 if big else 2):
            st.append("stress %s %x %x %x" % (paths[0], th, 400 if big else 150, sd + 1))
            if len(paths) > 1:
                # ... and with a second archive opened, searched and closed concurrently (lock order between the handle tables)
                st.append("stress %s %x %x %x %s" % (paths[0], th, 600 if big else 300, sd + 11, paths[1]))
    sto = C.run_lines(fi, st, shards=min(C.NPROC, len(st)), timeout=1500)
    for c, o in zip(st, sto):
        res.case(c.replace(base, "<dir>"), nontrivial=True)
        if not o.startswith("OK"):
            res.failing.append(("threads-%s" % o.split(" ")[0].split("-")[0].lower(), "threads sharing handles: %s" % o[:100], {"command": c.replace(base, "<dir>"), "archive": bl[0][:300]}))
    res.extra["thread_runs"] = dict(zip([c.split(" ", 2)[2] for c in st], sto))
    res.sample({"history": ",".join(hists[0]), "c_api": io[0][:300], "model": mo[0][:300]})
    res.traces = len(hists)
    shutil.rmtree(base, ignore_errors=True)
    return res.finish()
