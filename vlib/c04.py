"""C04 - hashing and cipher equal the MPQ algorithms and are mutually inverse."""
from . import common as C

HTYPES = [0x000, 0x100, 0x200, 0x300, 0x400]


def swap_case(b):
    return bytes((c + 32) if 65 <= c <= 90 else (c - 32) if 97 <= c <= 122 else c for c in b)


def swap_slash(b):
    return bytes(92 if c == 47 else 47 if c == 92 else c for c in b)


def gen_names(r, n):
    alph = b"abcdefghijklmnopqrstuvwxyzABCDEFGHIJKLMNOPQRSTUVWXYZ0123456789_-. ()\\/"
    out = []
    for i in range(n):
        k = r.choice([0, 1, 2, 3, 5, 8, 11, 12, 13, 23, 24, 25, 36, 37, 40, 64, 100]) if i % 3 == 0 else r.randint(1, 48)
        if i % 5 == 0:
            out.append(bytes(r.randrange(256) for _ in range(k)))
        else:
            out.append(bytes(r.choice(alph) for _ in range(k)))
    return out


def run(tier, seed, replay=None):
    res = C.Result("C04", tier, seed)
    res.rule = ("exhaustive: all 1280 crypt-table entries; all byte strings of length <=2 over 256 values x 5 hash types; "
                "cipher: every byte length 0..17 x keys {0,1,2^32-1,key+n wrapping to 0} + seeded random keys; seeded random names "
                "(ASCII path alphabet and raw bytes) for hash/Jenkins; a case is non-trivial unless its input is empty; distinct = distinct case line")
    res.assumptions = ["hash/cipher reference = published MPQ algorithm as transcribed in Mpq/Crypt.v (ref_*); lookup3 reference in Mpq/Jenkins.v",
                       "names reach the Rust functions as &str built with from_utf8_unchecked (functions only read bytes)"]
    mok, iok = C.standard_builds(res, "C04", ["impl_crypt"])
    if not (mok and iok):
        return res.finish()
    r = C.rng(seed, "C04")
    big = tier == "thorough"
    lines = ["table"]
    # exhaustive short names
    shorts = [b""] + [bytes([a]) for a in range(256)] + [bytes([a, b]) for a in range(256) for b in range(256)]
    for ht in HTYPES:
        for s in shorts:
            lines.append("hash %x %s" % (ht, C.hexs(s)))
    names = gen_names(r, 60000 if big else 6000)
    for s in names:
        lines.append("hash %x %s" % (r.choice(HTYPES), C.hexs(s)))
    inv = names[: (20000 if big else 3000)]
    inv_idx = len(lines)
    for s in inv:
        ht = r.choice(HTYPES)
        lines.append("hash %x %s" % (ht, C.hexs(s)))
        lines.append("hash %x %s" % (ht, C.hexs(swap_case(s))))
        lines.append("hash %x %s" % (ht, C.hexs(swap_slash(s))))
    # cipher
    keys = [0, 1, 0xFFFFFFFF, 0xFFFFFFFE, 0xFFFFFFFD, 0xC1EB1CEF, 0x100, 0xFF] + [r.getrandbits(32) for _ in range(400 if big else 60)]
    ciph_idx = len(lines)
    bufs = []
    for key in keys:
        for n in range(0, 18):
            bufs.append((key, bytes(r.randrange(256) for _ in range(n))))
    for _ in range(2000 if big else 200):
        bufs.append((r.getrandbits(32), bytes(r.randrange(256) for _ in range(r.choice([31, 32, 33, 63, 64, 255, 256, 511, 1024, 4099])))))
    for key, b in bufs:
        lines.append("encb %x %s" % (key, C.hexs(b)))
        lines.append("decb %x %s" % (key, C.hexs(b)))
        if len(b) % 4 == 0:
            lines.append("encw %x %s" % (key, C.hexs(b)))
            lines.append("decw %x %s" % (key, C.hexs(b)))
        if len(b) >= 4:
            lines.append("dword %x %x" % (key, int.from_bytes(b[:4], "little")))
    # Jenkins
    jn = gen_names(r, 20000 if big else 3000)
    for s in jn:
        lines.append("oaat %s" % C.hexs(s))
        lines.append("het %x %s" % (r.choice([8, 9, 16, 31, 32, 33, 40, 48, 56, 63, 64]), C.hexs(s)))
    for s in [b"", b"a"] + [bytes(range(1, k + 1)) for k in range(1, 40)]:
        for bits in list(range(8, 65)):
            lines.append("het %x %s" % (bits, C.hexs(s)))

    impl = C.run_lines([C.bin_path("impl_crypt")], lines)
    model = C.run_lines([C.MODELRUN], lines)
    # the reference side (independent definitions): same lines with ref* commands where they exist
    def refline(l):
        if l.startswith("hash "):
            return "ref" + l
        if l == "table":
            return "reftable"
        if l.startswith("het ") or l.startswith("oaat "):
            return "ref" + l
        if (l.startswith("encw ") or l.startswith("decw ")) and int(l.split()[1], 16) != 0:
            return "ref" + l
        return None
    ref_lines = [refline(l) for l in lines]
    ridx = [i for i, l in enumerate(ref_lines) if l is not None]
    refout = C.run_lines([C.MODELRUN], [ref_lines[i] for i in ridx])
    ref = dict(zip(ridx, refout))
    mism = 0
    for i, l in enumerate(lines):
        res.case(l, nontrivial=not l.endswith(" -"))
        if impl[i] != model[i]:
            mism += 1
            if mism <= 5:
                res.broken.append(("correspondence", {"case": l, "impl": impl[i][:200], "model": model[i][:200]}))
        if i in ref and impl[i] != ref[i]:
            res.failing.append(("differs-from-reference", "implementation output differs from the reference MPQ algorithm",
                                {"case": l, "impl": impl[i][:200], "reference": ref[i][:200]}))
    res.sample({"case": lines[300], "impl": impl[300], "model": model[300]})
    res.sample({"case": lines[ciph_idx + 40], "impl": impl[ciph_idx + 40], "model": model[ciph_idx + 40]})
    res.sample({"case": lines[-1], "impl": impl[-1], "model": model[-1]})
    # property oracles evaluated on the implementation alone
    for k in range(len(inv)):
        i = inv_idx + 3 * k
        if not (impl[i] == impl[i + 1] == impl[i + 2]):
            res.failing.append(("hash-not-spelling-invariant", "hash differs between spellings of one name",
                                {"cases": lines[i:i + 3], "impl": impl[i:i + 3]}))
    # decrypt(encrypt(x)) = x on the implementation
    enc_lines = [i for i in range(ciph_idx, len(lines)) if lines[i].startswith("encb ") or lines[i].startswith("encw ")]
    back = []
    for i in enc_lines:
        cmd, key, _ = lines[i].split()
        back.append("%s %s %s" % ("decb" if cmd == "encb" else "decw", key, impl[i]))
    backout = C.run_lines([C.bin_path("impl_crypt")], back)
    for i, o in zip(enc_lines, backout):
        res.case(back[enc_lines.index(i)] if False else "rt " + lines[i])
        if o != lines[i].split()[2]:
            res.failing.append(("cipher-roundtrip", "decrypt(encrypt(x)) != x on the implementation",
                                {"case": lines[i], "encrypted": impl[i][:200], "decrypted": o[:200]}))
    res.exhaustive = True
    res.extra["exhaustive_domains"] = ["crypt table 1280 entries", "names of length<=2 x 5 hash types (%d hashes)" % (len(shorts) * 5),
                                      "byte lengths 0..17 x %d keys" % len(keys), "het hash_bits 8..64 on 41 names"]
    res.extra["correspondence_mismatches"] = mism
    res.extra["input_distribution"] = {"hash_cases": sum(1 for l in lines if l.startswith("hash")), "cipher_cases": sum(1 for l in lines if l[:3] in ("enc", "dec", "dwo")),
                                       "jenkins_cases": sum(1 for l in lines if l.startswith("oaat") or l.startswith("het")),
                                       "panic_results": sum(1 for o in impl if o == "PANIC")}
    res.traces = len(lines)
    return res.finish()
