"""Shared machinery of the /verif checks: builds (Coq, OCaml model runner, Rust
harness against /repo's working tree), proof-obligation accounting, differential
execution helpers, known findings, evidence and verdict output."""
import fcntl, glob, hashlib, json, os, random, re, subprocess, sys, time

VERIF = os.path.dirname(os.path.dirname(os.path.abspath(__file__)))
REPO = os.environ.get("VERIF_REPO", "/repo")
COQ = os.path.join(VERIF, "coq")
CACHE = os.path.join(VERIF, ".cache")
TARGET = os.path.join(CACHE, "target")
MODELRUN = os.path.join(VERIF, "ocaml", "modelrun")
NPROC = os.cpu_count() or 4

FORBIDDEN = re.compile(r"\b(Admitted|admit|Axiom|Axioms|Parameter|Parameters|Conjecture|Conjectures|Admit Obligations|bypass_check)\b|Unset\s+Guard|Unset\s+Positivity|Unset\s+Universe|type-in-type|impredicative-set")

# library axioms that property theorems may depend on (named in the trusted base)
AXIOM_ALLOW = {
    "ClassicalDedekindReals.sig_forall_dec", "ClassicalDedekindReals.sig_not_dec",
    "FunctionalExtensionality.functional_extensionality_dep", "Classical_Prop.classic",
    "functional_extensionality_dep", "classic", "sig_forall_dec", "sig_not_dec",
}


def sh(cmd, timeout=1800, cwd=None, env=None, inp=None):
    e = dict(os.environ)
    e["CARGO_NET_OFFLINE"] = "true"
    if env:
        e.update(env)
    try:
        p = subprocess.run(cmd, shell=isinstance(cmd, str), cwd=cwd, env=e, input=inp,
                           stdout=subprocess.PIPE, stderr=subprocess.STDOUT, timeout=timeout)
        return p.returncode, p.stdout.decode("utf-8", "replace")
    except subprocess.TimeoutExpired as ex:
        out = ex.stdout.decode("utf-8", "replace") if ex.stdout else ""
        return 124, out + "\nTIMEOUT"


class Lock:
    def __init__(self, name):
        os.makedirs(CACHE, exist_ok=True)
        self.path = os.path.join(CACHE, name + ".lock")

    def __enter__(self):
        self.f = open(self.path, "w")
        fcntl.flock(self.f, fcntl.LOCK_EX)
        return self

    def __exit__(self, *a):
        fcntl.flock(self.f, fcntl.LOCK_UN)
        self.f.close()


# --------------------------------------------------------------------------- Coq

def gen_consts():
    rc, out = sh([sys.executable, os.path.join(VERIF, "tools", "gen_consts.py")], timeout=120)
    rep = {}
    try:
        rep = json.load(open(os.path.join(COQ, "Gen", "consts_report.json")))
    except Exception:
        pass
    return rc == 0, rep.get("missing", []), out


def coq_makefile():
    mk = os.path.join(COQ, "Makefile")
    cp = os.path.join(COQ, "_CoqProject")
    if not os.path.exists(mk) or os.path.getmtime(mk) < os.path.getmtime(cp):
        sh("coq_makefile -f _CoqProject -o Makefile", cwd=COQ, timeout=120)


def hygiene():
    """Scan the whole development for forbidden declarations / switches."""
    bad = []
    for f in glob.glob(os.path.join(COQ, "**", "*.v"), recursive=True):
        txt = open(f, encoding="utf-8", errors="replace").read()
        code = re.sub(r"\(\*.*?\*\)", "", txt, flags=re.S)  # comments may mention the words
        for m in FORBIDDEN.finditer(code):
            bad.append("%s: %s" % (os.path.relpath(f, COQ), m.group(0)))
    cp = open(os.path.join(COQ, "_CoqProject")).read()
    for m in FORBIDDEN.finditer(cp):
        bad.append("_CoqProject: " + m.group(0))
    return bad


def theorem_names(prop):
    txt = open(os.path.join(COQ, "Props", prop + ".v")).read()
    return re.findall(r"^Theorem\s+(\w+)", txt, flags=re.M)


def coq_obligations(prop, timeout=1500):
    """Builds Props/<prop>.vo and Pins/<prop>.vo (full .vo build of everything they
    depend on) and returns one obligation record per property theorem."""
    with Lock("coq"):
        coq_makefile()
        for d in ("Props", "Pins"):
            for ext in (".vo", ".vok", ".vos", ".glob"):
                p = os.path.join(COQ, d, prop + ext)
                if os.path.exists(p):
                    os.remove(p)
        t0 = time.time()
        rc, out = sh("timeout %d make -j%d Props/%s.vo Pins/%s.vo" % (timeout, NPROC, prop, prop), cwd=COQ, timeout=timeout + 30)
    names = theorem_names(prop)
    obls = []
    # Print Assumptions output, in order of appearance
    results = []
    collecting = False
    for line in out.split("\n"):
        if line.startswith("Closed under the global context"):
            results.append([])
            collecting = False
        elif line.startswith("Axioms:"):
            results.append([])
            collecting = True
        elif collecting:
            m = re.match(r"^([A-Za-z_][\w.']*)(\s*:.*)?$", line)
            if m:
                results[-1].append(m.group(1))
            elif line.startswith(" ") or line == "":
                pass
            else:
                collecting = False
    failed_file = None
    m = re.search(r'File "\./([^"]+)", line (\d+)', out)
    if rc != 0 and m:
        failed_file = "%s:%s" % (m.group(1), m.group(2))
    pins_ok = rc == 0
    for i, n in enumerate(names):
        if i < len(results):
            axs = results[i]
            bad = [a for a in axs if a not in AXIOM_ALLOW and a.split(".")[-1] not in AXIOM_ALLOW]
            ok = not bad
            obls.append({"theorem": n, "discharged": bool(ok and pins_ok), "axioms": axs,
                         "note": "" if ok else "axioms outside allowlist: " + ",".join(bad)})
        else:
            obls.append({"theorem": n, "discharged": False, "axioms": [],
                         "note": "not compiled (%s)" % (failed_file or "build failed")})
    if rc != 0 and not names:
        obls.append({"theorem": prop + " (build)", "discharged": False, "axioms": [], "note": failed_file or "build failed"})
    return {"ok": rc == 0 and all(o["discharged"] for o in obls), "rc": rc, "obligations": obls,
            "failed_at": failed_file, "log_tail": out[-3000:] if rc != 0 else "", "wall_s": round(time.time() - t0, 1)}


# ------------------------------------------------------------------- model runner

def build_modelrun():
    """(Re)build ocaml/modelrun when any model source is newer."""
    with Lock("ocaml"):
        srcs = glob.glob(os.path.join(COQ, "**", "*.v"), recursive=True) + glob.glob(os.path.join(VERIF, "ocaml", "*.ml")) + [os.path.join(VERIF, "ocaml", "build.sh")]
        srcs = [s for s in srcs if "/Proofs/" not in s and "/Props/" not in s and "/Pins/" not in s]
        newest = max(os.path.getmtime(s) for s in srcs)
        if os.path.exists(MODELRUN) and os.path.getmtime(MODELRUN) >= newest:
            return True, ""
        with Lock("coq"):
            coq_makefile()
            # model .vo files the extraction needs
            rc, out = sh("timeout 1200 make -j%d $(grep -E '^(Gen|Lib|Mpq|Fmt)/' _CoqProject | sed 's/\\.v$/.vo/')" % NPROC, cwd=COQ, timeout=1300)
            if rc != 0:
                return False, out[-3000:]
        rc, out = sh("timeout 600 ./build.sh", cwd=os.path.join(VERIF, "ocaml"), timeout=650)
        return rc == 0, out[-3000:]


# ------------------------------------------------------------------ Rust harness

def build_harness(bins, extra_env=None, timeout=3000):
    """cargo build of the named harness binaries against /repo's CURRENT tree."""
    with Lock("cargo"):
        lock_src = os.path.join(REPO, "Cargo.lock")
        lock_dst = os.path.join(VERIF, "harness", "Cargo.lock")
        if os.path.exists(lock_src) and not os.path.exists(lock_dst):
            open(lock_dst, "wb").write(open(lock_src, "rb").read())
        args = " ".join("--bin " + b for b in bins)
        rc, out = sh("timeout %d cargo build --offline %s" % (timeout, args), cwd=os.path.join(VERIF, "harness"),
                     env=extra_env, timeout=timeout + 30)
        return rc == 0, out[-4000:]


def bin_path(name):
    return os.path.join(TARGET, "debug", name)


def _big_stack():
    # extracted list functions are not tail recursive: give the model runner a large stack
    import resource
    try:
        resource.setrlimit(resource.RLIMIT_STACK, (resource.RLIM_INFINITY, resource.RLIM_INFINITY))
    except Exception:
        try:
            soft, hard = resource.getrlimit(resource.RLIMIT_STACK)
            resource.setrlimit(resource.RLIMIT_STACK, (hard, hard))
        except Exception:
            pass


def run_lines(cmd, lines, shards=None, timeout=1200, env=None):
    """Feeds case lines to a line-oriented runner (sharded over processes), returns
    one output line per case (missing lines -> 'ABORT')."""
    if not lines:
        return []
    if shards is None:
        shards = min(NPROC, max(1, len(lines) // 200))
    n = len(lines)
    per = (n + shards - 1) // shards
    procs = []
    e = dict(os.environ)
    if env:
        e.update(env)
    for i in range(0, n, per):
        chunk = lines[i:i + per]
        p = subprocess.Popen(cmd, stdin=subprocess.PIPE, stdout=subprocess.PIPE, stderr=subprocess.DEVNULL, env=e, preexec_fn=_big_stack)
        procs.append((p, chunk))
    # write in threads-free fashion: communicate sequentially (pipes buffer via communicate)
    import threading
    outs = [None] * len(procs)

    def work(k):
        p, chunk = procs[k]
        try:
            o, _ = p.communicate(("\n".join(chunk) + "\n").encode(), timeout=timeout)
            outs[k] = o.decode("utf-8", "replace").split("\n")
        except subprocess.TimeoutExpired:
            p.kill()
            outs[k] = ["TIMEOUT"] * 0
    ths = [threading.Thread(target=work, args=(k,)) for k in range(len(procs))]
    for t in ths:
        t.start()
    for t in ths:
        t.join()
    res = []
    for k, (p, chunk) in enumerate(procs):
        o = outs[k] or []
        if o and o[-1] == "":
            o = o[:-1]
        o = o[:len(chunk)]
        o += ["ABORT"] * (len(chunk) - len(o))
        res.extend(o)
    return res


# ------------------------------------------------------------------ misc helpers

def hexs(b):
    return b.hex() if b else "-"


def rng(seed, salt):
    return random.Random((int(seed) * 1000003) ^ int(hashlib.sha1(salt.encode()).hexdigest()[:12], 16))


def load_known(prop):
    p = os.path.join(VERIF, "known_findings.json")
    if not os.path.exists(p):
        return []
    return [e for e in json.load(open(p)).get("findings", []) if e.get("property") == prop]


def write_replay(prop, kind, payload):
    d = os.path.join(VERIF, "replays")
    os.makedirs(d, exist_ok=True)
    h = hashlib.sha1(json.dumps(payload, sort_keys=True, default=str).encode()).hexdigest()[:10]
    path = os.path.join(d, "%s_%s_%s.json" % (prop, kind, h))
    payload = dict(payload)
    payload["property"] = prop
    payload["kind"] = kind
    with open(path, "w") as f:
        json.dump(payload, f, indent=1, default=str)
    return path


def write_evidence(prop, ev):
    d = os.path.join(VERIF, "evidence")
    os.makedirs(d, exist_ok=True)
    with open(os.path.join(d, prop + ".json"), "w") as f:
        json.dump(ev, f, indent=1, default=str)


class Result:
    """Collects what one check run did; turns it into evidence + verdict."""

    def __init__(self, prop, tier, seed):
        self.prop, self.tier, self.seed = prop, tier, seed
        self.t0 = time.time()
        self.obligations = []
        self.evaluations = 0
        self.nontrivial = set()
        self.samples = []
        self.rule = ""
        self.exhaustive = False
        self.extra = {}
        self.failing = []        # (key, description, payload): property fails on the implementation
        self.broken = []         # (what, payload): proof / correspondence that no longer checks
        self.assumptions = []
        self.trusted = []
        self.checker_cmd = ""
        self.traces = 0

    def add_obligations(self, ob):
        self.obligations.extend(ob["obligations"])
        if not ob["ok"]:
            bad = [o for o in ob["obligations"] if not o["discharged"]]
            self.broken.append(("proof", {"theorems": [o["theorem"] for o in bad], "notes": [o["note"] for o in bad],
                                          "failed_at": ob.get("failed_at"), "log_tail": ob.get("log_tail", "")[-1500:]}))

    def case(self, key, nontrivial=True):
        self.evaluations += 1
        if nontrivial:
            self.nontrivial.add(hashlib.sha1(key.encode() if isinstance(key, str) else key).digest()[:8])

    def sample(self, s, limit=6):
        if len(self.samples) < limit:
            self.samples.append(s)

    def finish(self):
        known = load_known(self.prop)
        known_keys = {e["key"]: e for e in known if e.get("status") == "known"}
        printed = set()
        violations = []
        for key, desc, payload in self.failing:
            if key in known_keys:
                if key not in printed:
                    printed.add(key)
                    print("KNOWN-FINDING: property=%s %s [%s]" % (self.prop, known_keys[key].get("what", desc), key))
                continue
            violations.append((key, desc, payload))
        rc = 0
        seen = set()
        for key, desc, payload in violations:
            if key in seen:
                continue
            seen.add(key)
            path = write_replay(self.prop, "failing-input", {"key": key, "what": desc, "seed": self.seed, "case": payload})
            print("VIOLATION property=%s replay=%s" % (self.prop, path))
            rc = 1
        if not violations and self.broken:
            # a proof obligation or the correspondence no longer checks and no unlisted
            # failing input was found (known findings do not explain a broken proof)
            path = write_replay(self.prop, "unchecked", {"seed": self.seed, "broken": [{"what": w, "detail": p} for w, p in self.broken]})
            print("VIOLATION property=%s replay=%s no-failing-input-found" % (self.prop, path))
            rc = 1
        nob = len(self.obligations)
        ndis = sum(1 for o in self.obligations if o["discharged"])
        axioms = sorted({a for o in self.obligations for a in o["axioms"]})
        ev = {
            "property_id": self.prop, "tier": self.tier, "seed": int(self.seed), "level": "proof",
            "coverage": {
                "obligations": nob, "discharged": ndis,
                "checker_cmd": self.checker_cmd or "make -C coq Props/%s.vo Pins/%s.vo (coqc 8.16.1, full .vo build) + Print Assumptions per theorem" % (self.prop, self.prop),
                "trusted_base": self.trusted + ["Coq 8.16.1 kernel incl. vm_compute (no native_compute)",
                                                "library axioms used by property theorems: " + (", ".join(axioms) if axioms else "none (all closed under the global context)"),
                                                "extraction (ExtrOcamlBasic only, no Extract Constant) + ocaml/ driver", "tools/gen_consts.py", "Rust harness + vlib/ python driver"],
                "theorems": [{"name": o["theorem"], "discharged": o["discharged"], "axioms": o["axioms"], "note": o["note"]} for o in self.obligations],
                "evaluations": self.evaluations, "distinct_nontrivial": len(self.nontrivial),
                "rule": self.rule, "samples": self.samples, "exhaustive": self.exhaustive,
                "traces_validated_against_impl": self.traces,
                "known_findings_reconfirmed": sorted(printed),
                "broken": [w for w, _ in self.broken],
            },
            "assumptions": self.assumptions,
            "wall_s": round(time.time() - self.t0, 2),
            "violations": len(seen) + (1 if (not violations and self.broken) else 0),
        }
        ev["coverage"].update(self.extra)
        write_evidence(self.prop, ev)
        print("%s tier=%s seed=%s obligations=%d/%d evaluations=%d distinct_nontrivial=%d wall=%.1fs -> %s" % (
            self.prop, self.tier, self.seed, ndis, nob, self.evaluations, len(self.nontrivial), ev["wall_s"], "OK" if rc == 0 else "VIOLATION"))
        return rc


def standard_builds(res, prop, bins):
    """gen_consts + Coq obligations + modelrun + harness; records breakage in res.
    Returns (model_ok, impl_ok)."""
    ok, missing, out = gen_consts()
    res.extra["translator_missing_patterns"] = missing
    if not ok:
        res.broken.append(("translator", {"log": out[-1500:]}))
    hy = hygiene()
    if hy:
        res.broken.append(("hygiene", {"forbidden": hy}))
    ob = coq_obligations(prop)
    res.add_obligations(ob)
    res.extra["coq_build_s"] = ob["wall_s"]
    mok, mout = build_modelrun()
    if not mok:
        res.broken.append(("modelrun-build", {"log": mout[-1500:]}))
    iok, iout = build_harness(bins)
    if not iok:
        res.broken.append(("harness-build", {"log": iout[-2500:]}))
    return mok, iok


def coq_eval_ints(imports, expr, tag="cases", timeout=600):
    """Evaluates `expr` (a closed Coq term over the compiled models) with vm_compute
    inside coqc and returns every integer literal of the printed value, in order."""
    d = os.path.join(CACHE, "cases")
    os.makedirs(d, exist_ok=True)
    path = os.path.join(d, "%s_%d.v" % (tag, os.getpid()))
    with open(path, "w") as f:
        f.write(imports + "\nEval vm_compute in (" + expr + ").\n")
    rc, out = sh("timeout %d coqc -noglob -Q %s WR %s" % (timeout, COQ, path), timeout=timeout + 20)
    for ext in (".vo", ".vok", ".vos", ".glob"):
        q = path[:-2] + ext
        if os.path.exists(q):
            os.remove(q)
    if rc != 0:
        return None, out[-2000:]
    body = out.split("=", 1)[1] if "=" in out else out
    body = body.rsplit(":", 1)[0]
    return [int(x) for x in re.findall(r"-?\d+", body)], ""


CLI_TARGET = os.path.join(CACHE, "repo-target")


def build_cli(timeout=3000):
    """Builds the warcraft-rs binary from /repo's CURRENT working tree (own target dir)."""
    with Lock("cargo-cli"):
        rc, out = sh("timeout %d cargo build --offline -p warcraft-rs" % timeout, cwd=REPO,
                     env={"CARGO_TARGET_DIR": CLI_TARGET}, timeout=timeout + 30)
    return rc == 0, os.path.join(CLI_TARGET, "debug", "warcraft-rs"), out[-3000:]


def snapshot(root):
    """path -> (kind, size, sha1) for everything below root (symlinks not followed)."""
    snap = {}
    for d, dirs, files in os.walk(root):
        for n in dirs:
            p = os.path.join(d, n)
            snap[p] = ("dir", 0, "")
        for n in files:
            p = os.path.join(d, n)
            try:
                with open(p, "rb") as f:
                    b = f.read()
                snap[p] = ("file", len(b), hashlib.sha1(b).hexdigest())
            except OSError:
                snap[p] = ("unreadable", 0, "")
    return snap


def run_each(cmd, lines, timeout=10, workers=None):
    """Runs every line in its OWN process under a watchdog (for operations that may hang or
    abort): result per line = the output line, or TIMEOUT / ABORT(<signal>)."""
    import concurrent.futures

    def one(line):
        try:
            p = subprocess.run(cmd, input=(line + "\n").encode(), stdout=subprocess.PIPE, stderr=subprocess.DEVNULL, timeout=timeout)
            out = p.stdout.decode("utf-8", "replace").split("\n")[0]
            if p.returncode < 0:
                return "ABORT(%d)" % (-p.returncode)
            return out if out else "ABORT"
        except subprocess.TimeoutExpired:
            return "TIMEOUT"
    with concurrent.futures.ThreadPoolExecutor(max_workers=workers or NPROC) as ex:
        return list(ex.map(one, lines))
