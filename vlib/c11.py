"""C11 - extraction never writes outside the chosen output directory."""
import os, shutil, subprocess
from . import common as C

PIECES = ["..", ".", "", "a", "dir", "sub dir", "C:", "con", "x" * 180, "ünï", "...", "..a", "a..", "file.txt", "DATA", "e.bin",
          # shapes that become '..' / '.' under a normalisation applied after a check (trim, dot-trim, decode, width folding)
          ".. ", " ..", "..  ", "..\t", ". ", " .", "....", "%2e%2e", "..%2f", "..;", "\uff0e\uff0e", "\u2025", "..\u00a0"]
UPWARD = ["..", ".. ", " ..", "..\t", "...", "%2e%2e", "\uff0e\uff0e", "..  "]


def gen_name(r, esc_abs):
    k = r.randrange(10)
    n = r.randrange(1, 6)
    comps = [r.choice(PIECES) for _ in range(n)]
    if k == 0:
        comps = [r.choice(UPWARD) for _ in range(r.randrange(1, 6))] + ["escaped%d.txt" % r.randrange(1000)]
    elif k == 1:
        u = r.choice(UPWARD)
        comps = [r.choice(["dir", "textures", "a"])] + [u] * r.randrange(2, 5) + ["up%d.txt" % r.randrange(1000)]
    elif k == 2:
        comps = [""] + esc_abs.strip("/").split("/") + ["abs%d.txt" % r.randrange(1000)]      # absolute path
    elif k == 3:
        comps = ["C:", "Windows", "x%d.ini" % r.randrange(100)]
    elif k == 4:
        comps = ["ok", "fine%d.txt" % r.randrange(1000)]
    if comps[-1] in ("", ".", "..") and r.random() < 0.7:
        comps.append("f%d.dat" % r.randrange(1000))
    seps = [r.choice(["\\", "/", "\\", "\\\\"]) for _ in comps]
    s = ""
    for c, sp in zip(comps, seps):
        s += c + sp
    s = s[: -len(seps[-1])]
    if r.random() < 0.08:
        s = "\\" + s
    return s


def usable(name):
    # what the builder / listfile can carry at all (not a containment question)
    if not name or name.strip() != name or any(ch in name for ch in ";\r\n\0") or name[0] in "#-":
        return False
    return len(name.encode()) < 250 or True


def run(tier, seed, replay=None):
    res = C.Result("C11", tier, seed)
    res.rule = ("entry names from a grammar of '..', '.', empty, drive-letter, long, unicode and ordinary components with mixed separators, absolute and "
                "upward-pointing shapes, x preserve-paths on/off x patch chain on/off x explicit names vs whole archive; the real binary is run in a sandbox and "
                "the whole sandbox tree plus the absolute escape directory is snapshotted before/after; created paths are compared with the model's predicted targets; "
                "non-trivial = archive contains at least one name with a non-plain component; distinct = distinct (names, options)")
    res.assumptions = ["lexical containment: symlinks pre-existing inside the output tree are outside the property's quantifier and the model",
                       "Unix path semantics of std::path (components/join/file_name) as transcribed in Mpq/Path.v"]
    mok, iok = C.standard_builds(res, "C11", ["impl_mpq"])
    cok, cli, cout = C.build_cli()
    if not cok:
        res.broken.append(("cli-build", {"log": cout[-2000:]}))
    if not (mok and iok and cok):
        return res.finish()
    r = C.rng(seed, "C11")
    big = tier == "thorough"
    base = os.path.join(C.CACHE, "c11")
    shutil.rmtree(base, ignore_errors=True)
    os.makedirs(base)
    ncases = 480 if big else 96
    esc_root = os.path.join(base, "ABSOLUTE_ESCAPE")
    mism = 0
    for i in range(ncases):
        root = os.path.join(base, "run%d" % i, "root")
        outdir = os.path.join(root, "a", "b", "out")
        os.makedirs(outdir)
        with open(os.path.join(root, "a", "keep.txt"), "w") as f:
            f.write("pre-existing neighbour\n")
        names = []
        while len(names) < r.randrange(2, 6):
            n = gen_name(r, esc_root)
            if usable(n) and n.lower() not in [x.lower() for x in names]:
                names.append(n)
        names.append("plain%d.txt" % i)
        preserve = (i % 2 == 0)
        chain = (i % 4 >= 2)
        explicit = (i % 8 >= 4)
        entries = ",".join("%s:%s:0:0" % (C.hexs(n.encode()), C.hexs(("content of %s #%d" % (n, i)).encode())) for n in names)
        arch = os.path.join(root, "arch.mpq")
        lines = ["build %s 1 3 g n 0 0 0 %s" % (arch, entries)]
        patch = os.path.join(root, "patch.mpq")
        pnames = []
        if chain:
            pnames = [n for n in names[:2]] + ["..\\patchonly%d.txt" % i]
            pent = ",".join("%s:%s:0:0" % (C.hexs(n.encode()), C.hexs(("patched %s" % n).encode())) for n in pnames)
            lines.append("build %s 1 3 g n 0 0 0 %s" % (patch, pent))
        bo = C.run_lines([C.bin_path("impl_mpq")], lines, shards=1)
        if any(o != "OK" for o in bo):
            # the builder refused the name set: nothing to extract, not a containment case
            res.case("skip%d" % i, nontrivial=False)
            continue
        before = C.snapshot(os.path.join(base, "run%d" % i))
        cmd = [cli, "mpq", "extract", "../../arch.mpq", "-o", "out", "--skip-errors" if i % 3 == 0 else "--threads=2"]
        if preserve:
            cmd.append("-p")
        if chain:
            cmd += ["--patch", "../../patch.mpq"]
        allnames = names + [n for n in pnames if n not in names]
        req = allnames
        if explicit:
            req = [n for n in allnames if not n.startswith("-")][:4]
            cmd += ["--"] + req
        try:
            p = subprocess.run(cmd, cwd=os.path.join(root, "a", "b"), stdout=subprocess.PIPE, stderr=subprocess.STDOUT, timeout=120)
            rcode = p.returncode
        except subprocess.TimeoutExpired:
            rcode = 124
        after = C.snapshot(os.path.join(base, "run%d" % i))
        changed = sorted(k for k in after if before.get(k) != after[k]) + sorted(k for k in before if k not in after)
        outside = [k for k in changed if not (k == outdir or k.startswith(outdir + os.sep))]
        if os.path.exists(esc_root):
            outside.append(esc_root)
            shutil.rmtree(esc_root, ignore_errors=True)
        nontriv = any(any(c in ("..", ".", "") for c in n.replace("\\", "/").split("/")) or n.startswith(("\\", "/")) for n in allnames)
        res.case("%r|%s%s%s" % (allnames, preserve, chain, explicit), nontrivial=nontriv)
        case = {"names": allnames, "preserve_paths": preserve, "patch_chain": chain, "explicit_names": explicit, "exit": rcode, "cmd": " ".join(cmd[1:])}
        if outside:
            res.failing.append(("escape", "extraction created or modified paths outside the output directory: %s" % [os.path.relpath(o, root) for o in outside][:4],
                                dict(case, outside=[os.path.relpath(o, root) for o in outside])))
        if rcode in (124, -6, -11, 134, 139):
            res.failing.append(("crash", "extract crashed or hung (exit %s)" % rcode, case))
        # correspondence: created files under out == model's targets (for the requested names)
        if not explicit:
            req = req + ["(listfile)"]      # whole-archive extraction also writes the listing itself
        ml = ["target %d %s" % (1 if preserve else 0, C.hexs(n.encode())) for n in req]
        mo = C.run_lines([C.MODELRUN], ml, shards=1)
        predicted = set()
        for o in mo:
            if o.startswith("SOME "):
                predicted.add("/".join(bytes.fromhex(h).decode("utf-8", "replace") for h in o[5:].split("/")))
        created = set(os.path.relpath(k, outdir) for k in changed if after.get(k, ("",))[0] == "file" and k.startswith(outdir + os.sep))
        # the patch chain reports names in its own spelling: compare case-insensitively
        # file-system refusals that the model does not describe: one target is a directory of another (a file cannot be both), or a
        # component is longer than the file system allows; the run then stops early or skips entries, so only "nothing unpredicted" is demanded
        pl = sorted(c.lower() for c in predicted)
        fs_refusal = any(b.startswith(a + "/") for a in pl for b in pl if a != b) or any(len(x.encode()) > 255 for c in predicted for x in c.split("/"))
        if fs_refusal:
            agree = {c.lower() for c in created} <= {c.lower() for c in predicted}
        else:
            agree = {c.lower() for c in created} == {c.lower() for c in predicted}
        if not agree and not outside:
            mism += 1
            if mism <= 4:
                res.broken.append(("correspondence", dict(case, created=sorted(created), predicted=sorted(predicted))))
        if i < 3:
            res.sample(dict(case, created=sorted(created)))
        shutil.rmtree(os.path.join(base, "run%d" % i), ignore_errors=True)
    res.extra["correspondence_mismatches"] = mism
    res.traces = ncases
    return res.finish()
