"""C17 - DBC tables survive write -> parse and all access paths agree."""
import os, shutil
from . import common as C

TYPES = ["i32", "u32", "f32", "str", "bool", "u8", "i8", "u16", "i16"]
WIDTH = {"i32": 4, "u32": 4, "f32": 4, "str": 4, "bool": 4, "u8": 1, "i8": 1, "u16": 2, "i16": 2}


def gen_table(r, big):
    nf = r.choice([1, 2, 3, 5, 8, 24])
    fields = []
    for _ in range(nf):
        t = r.choice(TYPES)
        n = r.choice([0, 0, 1, 1, 2, 3, 5]) if r.random() < 0.4 else 0
        fields.append((t, n))
    key = None
    if r.random() < 0.7:
        # the key field must be a 32-bit integer scalar
        cands = [i for i, (t, n) in enumerate(fields) if t == "u32" and n == 0]
        if not cands:
            pos = r.randrange(len(fields) + 1)
            fields.insert(pos, ("u32", 0))
            cands = [pos]
        key = r.choice(cands)
    nrec = r.choice([0, 1, 2, 7, 33, 41, 300 if big else 90, 331 if big else 97])
    pool = [b"", b"a", b"Azeroth", b"Stormwind City", "Küste".encode(), "世界".encode(), b"x" * 70, b"dup", b"dup", b"tail\\path\\file.blp"] + \
           [bytes(r.randrange(1, 256) for _ in range(r.randrange(1, 12))) for _ in range(4)]
    pool = [p for p in pool if _utf8(p)]
    keyvals = [r.choice([0, 1, 5, 2 ** 31 - 1, 2 ** 31, 2 ** 31 + 5, 2 ** 32 - 1, r.randrange(2 ** 32), r.randrange(50)]) for _ in range(max(1, nrec))]
    recs = []
    for i in range(nrec):
        cells = []
        for fi, (t, n) in enumerate(fields):
            for _ in range(max(1, n)):
                if t == "str":
                    cells.append(("s", r.choice(pool)))
                elif t == "bool":
                    cells.append(("n", r.choice([0, 1])))
                elif fi == key:
                    cells.append(("n", keyvals[i] if r.random() < 0.85 else r.choice(keyvals)))
                else:
                    w = WIDTH[t]
                    cells.append(("n", r.choice([0, 1, 256 ** w - 1, 256 ** w // 2, r.randrange(256 ** w)])))
        recs.append(cells)
    return fields, key, recs


def _utf8(b):
    try:
        b.decode("utf-8")
        return True
    except UnicodeDecodeError:
        return False


def relayout(fh, fields, recs):
    """the same table with a string block laid out differently from the writer's: no leading NUL (the first string
    sits at offset 0), strings in reverse order of first use, the empty string pointing at a terminator in the middle"""
    import struct
    raw = bytearray(bytes.fromhex(fh))
    nrec, nf, rs, ss = struct.unpack_from("<IIII", raw, 4)
    strs = []
    for cells in recs:
        for k, v in cells:
            if k == "s" and v and v not in strs:
                strs.append(v)
    if not strs:
        return None
    strs.reverse()
    off, block = {}, b""
    for x in strs:
        off[x] = len(block)
        block += x + b"\0"
    off[b""] = len(strs[0])
    pos = []
    p = 0
    for t, n in fields:
        for _ in range(max(1, n)):
            pos.append((p, t))
            p += WIDTH[t]
    if p != rs:
        return None
    for i, cells in enumerate(recs):
        for (o, t), (k, v) in zip(pos, cells):
            if t == "str":
                struct.pack_into("<I", raw, 20 + i * rs + o, off[v])
    out = bytes(raw[:20 + nrec * rs]) + block
    out = out[:16] + struct.pack("<I", len(block)) + out[20:]
    return out.hex()


def schema_tok(fields):
    return ",".join(t + ("*%d" % n if n else "") for t, n in fields)


def recs_tok(recs):
    return "|".join(";".join(("s" + C.hexs(v) if k == "s" and v else "s" if k == "s" else "%x" % v) for k, v in cells) for cells in recs) or "-"


def dump_tok(fields, recs):
    """the text both sides print for a record set"""
    out = []
    for cells in recs:
        it = iter(cells)
        fs = []
        for t, n in fields:
            cs = [next(it) for _ in range(max(1, n))]
            txt = [("s" + (C.hexs(v) if v else "-") if k == "s" else "%x" % v) for k, v in cs]
            fs.append("[" + ";".join(txt) + "]" if n else txt[0])
        out.append(",".join(fs))
    return "|".join(out) or "-"


def run(tier, seed, replay=None):
    res = C.Result("C17", tier, seed)
    res.rule = ("random schemas (1..25 fields over all nine field types, arrays of 2..5 elements, u32 key field anywhere) x record sets (0..300 records, duplicate / empty / non-ASCII "
                "strings, unsorted and duplicate keys incl. values above 2^31): the model writes the file (and a second layout of it whose string block has no leading NUL, another order and the empty string in the middle); the library parses it and writes it again (byte-identical to the model's "
                "file, size = header + records x record size + string block, each distinct string once), re-parses its own output, and reads the records through the eager parser, "
                "the lazy iterator, lazy random access, the memory-mapped file and the parallel parser: all must print the same records as the model; hashed and binary-searched "
                "key lookups must return a record carrying the key (or nothing exactly when the key is absent), as the model's sorted-table search does; non-trivial = table with "
                "strings, arrays or narrow fields; distinct = distinct table")
    res.assumptions = ["numbers are compared as raw bit patterns (floats are never interpreted)", "strings are valid UTF-8 without NUL bytes (the library hands out &str)",
                       "rayon scheduling and the memory map are exercised, not modelled"]
    mok, iok = C.standard_builds(res, "C17", ["impl_dbc"])
    if not (mok and iok):
        return res.finish()
    r = C.rng(seed, "C17")
    big = tier == "thorough"
    base = os.path.join(C.CACHE, "c17")
    shutil.rmtree(base, ignore_errors=True)
    os.makedirs(base)
    n = 1500 if big else 120
    tabs = [gen_table(r, big) for _ in range(n)]
    wl = ["dbcwrite %s %s" % (schema_tok(f), recs_tok(rc)) for f, k, rc in tabs]
    files = C.run_lines([C.MODELRUN], wl, shards=C.NPROC, timeout=1500)
    # foreign layouts of the same tables (string block without leading NUL, other order): content must survive parse -> write -> parse
    foreign = [False] * len(tabs)
    for (f, k, rc), fh in list(zip(tabs, files)):
        if rc and any(t == "str" for t, _ in f) and len(rc) <= 90:
            alt = relayout(fh, f, rc)
            if alt:
                tabs.append((f, k, rc)); files.append(alt); foreign.append(True)
    n = len(tabs)
    il, kqs = [], []
    for (f, k, rc), fh in zip(tabs, files):
        keys = []
        if k is not None and rc:
            kpos = sum(max(1, nn) for _, nn in f[:k])
            present = [cells[kpos][1] for cells in rc]
            keys = sorted(set(r.sample(present, min(len(present), 6)) + [r.randrange(2 ** 32), 3, 2 ** 31]))
        kqs.append(keys)
        il.append("dbc %s %s %s %s" % (schema_tok(f), k if k is not None else "-", fh, ",".join("%x" % x for x in keys) or "-"))
    io = C.run_lines([C.bin_path("impl_dbc")], il, shards=C.NPROC, timeout=1500, env={"VERIF_TMP": base})
    rl = ["dbcread %s %s" % (schema_tok(f), fh) for (f, k, rc), fh in zip(tabs, files)]
    mr = C.run_lines([C.MODELRUN], rl, shards=C.NPROC, timeout=1500)
    kl = []
    for (f, k, rc), keys in zip(tabs, kqs):
        if keys:
            kpos = sum(max(1, nn) for _, nn in f[:k])
            kl.append("dbckeys %s %s" % (",".join("%x:%x" % (cells[kpos][1], i) for i, cells in enumerate(rc)), ",".join("%x" % x for x in keys)))
        else:
            kl.append("dbckeys - 0")
    mk = C.run_lines([C.MODELRUN], kl, shards=C.NPROC, timeout=1500)
    paths = {"E": "eager parse", "R": "parse of the library's own output", "L": "lazy iterator", "G": "lazy random access", "M": "memory-mapped file", "P": "parallel parser", "C": "record set with cached strings"}
    agree = 0
    for (f, k, rc), fh, o, m, keys, mko, alien in zip(tabs, files, io, mr, kqs, mk, foreign):
        nontriv = any(t == "str" or nn or WIDTH[t] < 4 for t, nn in f) and bool(rc)
        res.case("%s|%s|%s|%d" % (schema_tok(f), k, C.hashlib.sha1(recs_tok(rc).encode()).hexdigest(), alien), nontrivial=nontriv)
        case = {"schema": schema_tok(f), "key_field": k, "records": len(rc), "file_hex": fh[:400], "first_records": recs_tok(rc[:3])[:400]}
        want = dump_tok(f, rc)
        if m != want:
            res.broken.append(("model-selftest", {"what": "the model does not read back its own file", "schema": schema_tok(f), "model": m[:200], "want": want[:200]}))
            continue
        if not o.startswith("E="):
            res.failing.append(("parse-fails", "the library cannot parse a well-formed table: " + o[:100], case))
            continue
        d = dict(x.split("=", 1) for x in o.split(" "))
        bad = False
        for tag, what in paths.items():
            if d.get(tag) != want:
                res.failing.append(("path-%s-differs" % what.replace(" ", "-"), "%s returns different records: %s" % (what, (d.get(tag) or "")[:120]), dict(case, want=want[:200])))
                bad = True
                break
        if bad:
            continue
        if not alien and d.get("W") != fh:
            size_ok = len(d.get("W", "")) == len(fh)
            res.failing.append(("rewritten-file-differs", "parse -> write does not give the canonical file (%s)" % ("same size" if size_ok else "size %d instead of %d" % (len(d.get("W", "")) // 2, len(fh) // 2)),
                                dict(case, written=d.get("W", "")[:300])))
            continue
        # key lookups
        if keys:
            kpos = sum(max(1, nn) for _, nn in f[:k])
            present = {}
            for i, cells in enumerate(rc):
                present.setdefault(cells[kpos][1], []).append(dump_tok(f, [cells]))
            mans = mko.split(",")
            for tag, what in (("K", "hashed"), ("B", "binary-searched")):
                ans = d.get(tag, "-").split("|")
                for key, a, ma in zip(keys, ans, mans):
                    ok = (a == "none" and key not in present) or (key in present and a in present[key])
                    mok2 = (ma == "none") == (key not in present)
                    if not mok2:
                        res.broken.append(("model-selftest", {"what": "model key lookup", "key": key, "model": ma}))
                    if not ok:
                        res.failing.append(("key-lookup-%s" % what, "%s lookup of key %d returns %s" % (what, key, a[:80] if a != "none" else "nothing although the key is present"),
                                            dict(case, key=key)))
                        bad = True
                        break
                if bad:
                    break
        agree += not bad
    res.extra["tables_agreeing_on_every_path"] = "%d/%d" % (agree, n)
    res.extra["foreign_layouts"] = sum(foreign)
    res.extra["distribution"] = {"with_arrays": sum(any(nn for _, nn in f) for f, k, rc in tabs), "with_strings": sum(any(t == "str" for t, _ in f) for f, k, rc in tabs),
                                 "with_key": sum(k is not None for f, k, rc in tabs), "empty": sum(not rc for f, k, rc in tabs), "max_records": max(len(rc) for f, k, rc in tabs)}
    res.sample({"schema": schema_tok(tabs[0][0]), "library": io[0][:300]})
    res.traces = n
    shutil.rmtree(base, ignore_errors=True)
    return res.finish()
