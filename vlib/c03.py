"""C03 - lossless codecs invert exactly, never expand, accept their own output."""
import math, struct
from . import common as C

LOSSLESS = [0x02, 0x10, 0x12, 0x20, 0x08]          # zlib, bzip2, LZMA, sparse, PKWare
ALL_SEL = [0x00, 0x01, 0x02, 0x08, 0x10, 0x12, 0x20]

# F6 (known finding): PKWare output of long constant runs makes the external `implode`
# exploder panic.  The class is keyed by what fails, not by the input.
def classify_failure(method, result, n):
    if method == 0x08 and result == "PANIC":
        return "pkware-exploder"
    # known finding: bzip2 of 2 MiB constant data exceeds the adaptive limit (30000:1)
    if method == 0x10 and n == 2097152 and "rejected-own-output" in result and "exceeds limit of 30000:1" in result:
        return "own-output-rejected-m10-limit30000"
    return None


def gen_strings(r, n, maxlen):
    out = []
    kinds = ["zeros", "const", "period", "sparse", "random", "text", "runs", "tiny", "boundary"]
    for i in range(n):
        k = kinds[i % len(kinds)]
        L = r.choice([0, 1, 2, 3, 4, 5, 6, 7, 8, 15, 16, 17, 63, 64, 127, 128, 129, 130, 131, 132, 133, 134, 135, 255, 256, 259, 260, 261, 262, 511, 512, 513, 1000, 4096])
        if i % 7 == 0:
            L = r.randrange(0, maxlen)
        if k == "zeros":
            b = bytes(L)
        elif k == "const":
            b = bytes([r.randrange(1, 256)]) * L
        elif k == "period":
            p = bytes(r.randrange(256) for _ in range(r.randrange(2, 65)))
            b = (p * (L // len(p) + 1))[:L]
        elif k == "sparse":
            a = bytearray(L)
            for _ in range(max(1, L // 50)):
                if L:
                    a[r.randrange(L)] = r.randrange(1, 256)
            b = bytes(a)
        elif k == "random":
            b = bytes(r.randrange(256) for _ in range(L))
        elif k == "text":
            w = [b"the ", b"quick ", b"brown ", b"fox ", b"World\\Maps\\", b"Azeroth ", b"\r\n"]
            b = b"".join(r.choice(w) for _ in range(L // 4 + 1))[:L]
        elif k == "runs":
            # alternating zero / non-zero runs with lengths around the sparse codec's boundaries
            a = bytearray()
            while len(a) < L:
                a += bytes(r.choice([1, 2, 3, 4, 5, 127, 128, 129, 130, 131, 132, 133, 134, 135, 260, 261, 263, 266, 391]))
                a += bytes(r.randrange(1, 256) for _ in range(r.choice([1, 2, 3, 127, 128, 129, 130, 131, 257, 258])))
            b = bytes(a[:L]) if L else bytes(a[:r.choice([131, 261, 134, 136])])
        elif k == "tiny":
            b = bytes(r.choice([0, 0, 1, 255]) for _ in range(r.randrange(0, 9)))
        else:
            z = r.choice([3, 130, 131, 133, 134, 136, 261, 266])
            b = bytes(r.randrange(1, 256) for _ in range(r.choice([0, 1, 7, 128, 129, 130]))) + bytes(z) + bytes(r.randrange(1, 256) for _ in range(r.choice([0, 1, 2, 3, 4, 60])))
        out.append(b)
    return out


def run(tier, seed, replay=None):
    res = C.Result("C03", tier, seed)
    res.rule = ("byte strings from 9 compressibility classes (zeros, constant, periodic, sparse, random, text, zero/non-zero runs with lengths around "
                "0x80/0x81/0x82/0x85, tiny, boundary) x every lossless selector: compress -> decompress oracle on the implementation; sparse codec and wrapper "
                "byte-exact against the extracted model (also on malformed sparse streams); limit logic on boundary triples (c, n, method) against the model; "
                "highly compressible inputs up to 2^21 bytes must be accepted; ADPCM length/interleaving; non-trivial = non-empty input; distinct = distinct case line")
    res.assumptions = ["codec contract (Gamma-codec): zlib/bzip2/LZMA/PKWare/Huffman/ADPCM internals are external crates - exercised, not modelled",
                       "wall-clock limit of the decompression monitor is not modelled"]
    mok, iok = C.standard_builds(res, "C03", ["impl_compress"])
    if not (mok and iok):
        return res.finish()
    r = C.rng(seed, "C03")
    big = tier == "thorough"
    ib = [C.bin_path("impl_compress")]
    strings = gen_strings(r, 3000 if big else 500, 70000 if big else 9000)
    # exhaustive zero-run sweep for the sparse boundaries
    strings += [bytes(k) for k in range(0, 800 if not big else 1500)]
    strings += [b"\x07" + bytes(k) + b"\x09" for k in range(0, 300)]
    strings += [bytes(7) + bytes([1 + (k % 250)]) * k for k in range(1, 70)]
    # sizes around codec-internal buffer limits, compressible content, every selector
    for n in (4095, 4096, 4097, 5000, 8191, 8192, 8193, 9000, 16384, 20000, 32768, 65536):
        strings.append((b"quest item World\\Maps\\Azeroth\\ 0123456789\r\n" * (n // 40 + 1))[:n])
        strings.append((bytes((k * 37 + 11) & 0xFF for k in range(23)) * (n // 23 + 1))[:n])
    # ---- round trip oracle on the implementation, all lossless selectors
    lines, meta = [], []
    for i, s in enumerate(strings):
        for m in (LOSSLESS if (i % 3 == 0 or len(s) < 600 or i >= len(strings) - 24) else [r.choice(LOSSLESS), 0x20]):
            lines.append("rt %x %s" % (m, C.hexs(s)))
            meta.append((m, len(s)))
    # own output of large, highly compressible inputs must be accepted (F5 region)
    for n in ([65536, 47003, 131072, 729088, 1048576, 2097152] if big else [65536, 47003, 262144, 1048576, 2097152]):
        for m in (0x02, 0x10, 0x12, 0x20):
            lines.append("rt %x %s" % (m, C.hexs(bytes(n))))
            meta.append((m, n))
            lines.append("rt %x %s" % (m, C.hexs(b"\x41" * n)))
            meta.append((m, n))
    out = C.run_lines(ib, lines, timeout=2400)
    stats = {}
    for l, (m, n), o in zip(lines, meta, out):
        res.case(l[:64] + C.hashlib.sha1(l.encode()).hexdigest(), nontrivial=n > 0)
        cls = o.split()[0] if o else "ABORT"
        stats[cls] = stats.get(cls, 0) + 1
        if cls in ("FAIL", "PANIC", "ABORT", "TIMEOUT"):
            key = classify_failure(m, o, n) or ("roundtrip-m%02x" % m)
            short = l if len(l) < 300 else l[:300] + "...(%d bytes)" % n
            res.failing.append((key, "compress->decompress oracle failed for method 0x%02x on %d bytes: %s" % (m, n, o[:120]), {"case": short, "result": o[:300], "len": n}))
    res.extra["oracle_outcomes"] = stats
    res.sample({"case": lines[5][:100], "result": out[5]})
    # ---- sparse codec + wrapper: model vs implementation, byte exact
    sl = ["comp 20 " + C.hexs(s) for s in strings if len(s) <= (70000 if big else 9000)]
    io = C.run_lines(ib, sl)
    mo = C.run_lines([C.MODELRUN], sl)
    mism = 0
    for l, a, b in zip(sl, io, mo):
        res.case("m" + C.hashlib.sha1(l.encode()).hexdigest())
        if a != b:
            mism += 1
            if mism <= 3:
                res.broken.append(("correspondence", {"case": l[:300], "impl": a[:200], "model": b[:200]}))
    # decompress incl. malformed sparse streams (header size lies, truncated runs, junk)
    dl = []
    for s in strings[: (1500 if big else 300)]:
        c = next((o for l, o in zip(sl, io) if l == "comp 20 " + C.hexs(s)), None)
        if not c or c in ("ERR", "PANIC") or c == C.hexs(s):
            continue
        payload = bytes.fromhex(c)[1:]
        dl.append("decomp 20 %x %s" % (len(s), C.hexs(payload)))
        for _ in range(2):
            p = bytearray(payload)
            k = r.randrange(5)
            if k == 0 and len(p) > 4:
                p[r.randrange(4)] = r.randrange(256)
            elif k == 1:
                p = p[: r.randrange(len(p) + 1)]
            elif k == 2 and len(p) > 5:
                p[r.randrange(4, len(p))] = r.choice([0, 0x7F, 0x80, 0xFF, r.randrange(256)])
            elif k == 3:
                p += bytes(r.randrange(256) for _ in range(r.randrange(1, 5)))
            size = r.choice([len(s), len(s) + 1, max(0, len(s) - 1), len(s) * 2, 0, 1])
            dl.append("decomp 20 %x %s" % (size, C.hexs(bytes(p))))
    io2 = C.run_lines(ib, dl)
    mo2 = C.run_lines([C.MODELRUN], dl)
    for l, a, b in zip(dl, io2, mo2):
        res.case("d" + C.hashlib.sha1(l.encode()).hexdigest())
        if a != b:
            mism += 1
            if mism <= 6:
                res.broken.append(("correspondence", {"case": l[:300], "impl": a[:200], "model": b[:200]}))
    res.extra["sparse_wrapper_cases"] = len(sl) + len(dl)
    res.extra["sparse_decomp_err"] = sum(1 for a in io2 if a == "ERR")
    # ---- limit logic on boundary triples
    cs = [0, 1, 42, 43, 47, 99, 100, 101, 511, 512, 513, 729, 4095, 4096, 4097, 65535, 65536, 65537, 1048575, 1048576, 1048577, 3000000]
    ns = [0, 1, 1000, 43000, 46999, 47000, 47001, 65536, 729088, 1048576, 2097152, 10485760, 10485761, 104857600, 104857601, 1073741824, 1073741825]
    ms = [0, 1, 2, 4, 8, 0x10, 0x12, 0x20, 0x40, 0x80, 0x81, 0x82, 0x41, 0x48, 0xFF]
    vl = []
    for c in cs:
        for n in ns:
            for m in ms:
                vl.append("valop %x %x %x" % (c, n, m))
    for _ in range(4000 if big else 800):
        c = r.choice(cs + [r.randrange(1, 5000)])
        m = r.choice(ms)
        # ratios right at the adaptive limit
        lim = r.choice([25, 50, 100, 250, 500, 1000, 2000, 2500, 3000, 4000, 5000, 10000, 15000, 20000, 30000, 40000, 50000])
        n = max(0, c * lim + r.choice([-1, 0, c - 1, c, c + 1]))
        vl.append("valop %x %x %x" % (c, n, m))
    vl += ["adlimit %x %x" % (c, m) for c in cs for m in ms]
    iv = C.run_lines(ib, vl)
    mv = C.run_lines([C.MODELRUN], vl)
    for l, a, b in zip(vl, iv, mv):
        res.case(l)
        if a != b:
            mism += 1
            if mism <= 9:
                res.broken.append(("correspondence", {"case": l, "impl": a, "model": b}))
    res.extra["limit_cases"] = len(vl)
    res.extra["limit_rejects"] = sum(1 for a in iv if a == "ERR")
    res.extra["correspondence_mismatches"] = mism
    # ---- ADPCM: length and channel interleaving
    al = []
    for k in range(40 if big else 12):
        nsamp = r.choice([64, 200, 1000, 4000])
        amp = r.choice([3000, 8000, 12000])
        mono = b"".join(struct.pack("<h", int(amp * math.sin(i * 0.07 + k))) for i in range(nsamp))
        st_l = b"".join(struct.pack("<hh", int(amp * math.sin(i * 0.05)), 0) for i in range(nsamp))
        st_r = b"".join(struct.pack("<hh", 0, int(amp * math.sin(i * 0.05))) for i in range(nsamp))
        al += ["adpcm 40 " + C.hexs(mono), "adpcm 80 " + C.hexs(st_l), "adpcm 80 " + C.hexs(st_r)]
    # jumps: a level change larger than twice the current step makes the encoder emit step markers (odd and even runs of them);
    # the other channel holds a constant level, so samples ending up in the wrong channel show as an error of about the jump
    for A in ([1500, 5000, 12000, 20000, 30000, -25000] if big else [1500, 12000, 30000, -25000]):
        for pos in ((10, 33, 100) if big else (10, 33)):
            for other in (0, 7000, -3000):
                n = 300
                L = [0 if i < pos else A for i in range(n)]
                al.append("adpcm 80 " + C.hexs(b"".join(struct.pack("<hh", x, other) for x in L)))
                al.append("adpcm 80 " + C.hexs(b"".join(struct.pack("<hh", other, x) for x in L)))
                al.append("adpcm 40 " + C.hexs(b"".join(struct.pack("<h", x) for x in L)))
    stair = set()                               # jumps of up to 60000: the error right after a jump reaches 2046 over 1200 such signals on the unchanged tree; limit 6000
    for k in range(24 if big else 8):          # random staircases on both channels
        lv = [[r.randrange(-30000, 30000) for _ in range(8)] for _ in (0, 1)]
        cut = [sorted(r.sample(range(1, 300), 7)) for _ in (0, 1)]
        lev = lambda c, i: lv[c][sum(1 for x in cut[c] if x <= i)]
        al.append("adpcm 80 " + C.hexs(b"".join(struct.pack("<hh", lev(0, i), lev(1, i)) for i in range(300))))
        stair.add(al[-1])
    ao = C.run_lines(ib, al)
    for l, o in zip(al, ao):
        res.case("a" + C.hashlib.sha1(l.encode()).hexdigest())
        t = o.split()
        if t[0] == "STORED":
            continue
        if t[0] != "LEN-OK":
            res.failing.append(("adpcm-length", "ADPCM selector does not preserve length: " + o[:100], {"case": l[:200], "result": o}))
        elif l.startswith("adpcm 80") and (int(t[1]) > (6000 if l in stair else 2500) or int(t[2]) > (6000 if l in stair else 2500)):
            res.failing.append(("adpcm-interleaving", "ADPCM stereo does not keep the channels apart (max error L=%s R=%s)" % (t[1], t[2]), {"case": l[:200], "result": o}))
    res.sample({"case": al[1][:80], "result": ao[1]})
    res.sample({"case": vl[100], "impl": iv[100], "model": mv[100]})
    res.traces = len(sl) + len(dl) + len(vl)
    return res.finish()
