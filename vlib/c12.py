"""C12 - writing an archive is all-or-nothing at the destination path."""
import os, re, shutil, signal, resource, subprocess
from concurrent.futures import ThreadPoolExecutor
from . import common as C
from . import c01

RELEVANT = ("openat", "open", "creat", "write", "pwrite64", "writev", "pwritev", "lseek", "ftruncate", "truncate", "close", "rename", "renameat", "renameat2",
            "unlink", "unlinkat", "fsync", "fdatasync", "link", "linkat", "copy_file_range", "sendfile", "fallocate")
LINE = re.compile(r"^(\d+)\s+(\w+)\((.*)\)\s+=\s+(-?\d+|\?)")
STR = re.compile(r'"((?:\\x[0-9a-f]{2})*)"(\.\.\.)?')


def unx(s):
    return bytes.fromhex(s.replace("\\x", ""))


def strace(cmd, tracefile, inject=None, timeout=60):
    a = ["strace", "-f", "-o", tracefile, "-xx", "-s", "4000000", "-e", "trace=" + ",".join(RELEVANT) + ",newfstatat,statx,stat"]
    if inject:
        a += ["-e", "inject=" + inject]
    try:
        p = subprocess.run(a + cmd, capture_output=True, text=True, timeout=timeout)
        return p.returncode, p.stdout.strip()
    except subprocess.TimeoutExpired:
        return -99, "TIMEOUT"


def parse_trace(path, workdir, marker=None):
    """-> (ops tokens, per-op info dicts, ok); only calls after the marker (if any) are 'in the window'"""
    ids = {}
    pid = lambda p: ids.setdefault(p, len(ids) + 1)
    ops, info = [], []
    counts = {}
    seen_marker = marker is None
    wfds = set()
    ok = True
    for ln, line in enumerate(open(path, errors="replace")):
        if "unfinished" in line or "resumed" in line:
            ok = False
            continue
        m = LINE.match(line)
        if not m:
            continue
        name, args, ret = m.group(2), m.group(3), m.group(4)
        counts[name] = counts.get(name, 0) + 1
        strs = [unx(x[0]).decode("utf-8", "replace") for x in STR.findall(args)]
        if marker and name in ("newfstatat", "statx", "stat") and strs and strs[0] == marker:
            seen_marker = True
            continue
        if name not in RELEVANT:
            continue
        tok = "x"
        succeeded = ret not in ("?",) and int(ret) >= 0
        inwork = False
        try:
            if name in ("openat", "open", "creat"):
                p = strs[0]
                inwork = p.startswith(workdir)
                if succeeded and inwork:
                    fl = args
                    tok = "o.%x.%x.%d.%d.%d.%d" % (int(ret), pid(p), "O_CREAT" in fl or name == "creat", "O_TRUNC" in fl or name == "creat",
                                                    "O_WRONLY" in fl or "O_RDWR" in fl or name == "creat", "O_APPEND" in fl)
                    wfds.add(int(ret))
                elif succeeded:
                    wfds.discard(int(ret))
            elif name == "write":
                fd = int(args.split(",")[0])
                inwork = fd in wfds
                if succeeded and inwork:
                    tok = "w.%x.%s" % (fd, C.hexs(unx(STR.search(args).group(1))[:int(ret)]))
            elif name == "pwrite64":
                fd = int(args.split(",")[0])
                inwork = fd in wfds
                if succeeded and inwork:
                    off = int(args.rsplit(",", 1)[1])
                    tok = "p.%x.%x.%s" % (fd, off, C.hexs(unx(STR.search(args).group(1))[:int(ret)]))
            elif name == "lseek":
                fd = int(args.split(",")[0])
                inwork = fd in wfds
                if succeeded and inwork:
                    tok = "s.%x.%x" % (fd, int(ret))
            elif name == "ftruncate":
                fd = int(args.split(",")[0])
                inwork = fd in wfds
                if succeeded and inwork:
                    tok = "t.%x.%x" % (fd, int(args.split(",")[1]))
            elif name == "close":
                fd = int(args.split(",")[0])
                inwork = fd in wfds
                if succeeded and inwork:
                    tok = "c.%x" % fd
                    wfds.discard(fd)
            elif name in ("rename", "renameat", "renameat2"):
                inwork = any(s.startswith(workdir) for s in strs)
                if succeeded and inwork:
                    tok = "r.%x.%x" % (pid(strs[0]), pid(strs[1]))
            elif name in ("unlink", "unlinkat"):
                inwork = bool(strs) and strs[0].startswith(workdir)
                if succeeded and inwork:
                    tok = "u.%x" % pid(strs[0])
            elif name in ("fsync", "fdatasync"):
                inwork = int(args.split(",")[0]) in wfds
            elif name in ("writev", "pwritev", "truncate", "link", "linkat", "copy_file_range", "sendfile", "fallocate"):
                inwork = True
                if seen_marker:
                    ok = False          # a call the translator does not model inside the window
        except Exception:
            ok = False
        if not inwork:
            continue
        ops.append(tok)
        info.append({"name": name, "ordinal": counts[name], "window": seen_marker, "line": ln})
    return ops, info, ids, ok


def state_letter(dst, old, new):
    if not os.path.exists(dst):
        return "O" if old is None else "-"
    b = open(dst, "rb").read()
    if old is not None and b == old:
        return "O"
    if new is not None and b == new:
        return "N"
    return "X"


def run(tier, seed, replay=None):
    res = C.Result("C12", tier, seed)
    res.rule = ("ArchiveBuilder::build (V1..V4, with and without an existing destination) MutableArchive::compact (clean, with pending add/remove operations, and after sessions that keep the number of entries: removal only, renaming only, replacing one file) and rebuild_archive (with and without an existing destination): the real "
                "system calls are traced (strace), translated to model operations and (1) replayed on the file-system model, whose final destination content must equal the real "
                "file and whose discipline verdict is taken, (2) the process is killed on entry of every file-system call in the window, and every write/open/rename is failed once "
                "and persistently (ENOSPC, EACCES, EIO), and file-size limits cut writes short: afterwards the destination must hold its previous bytes or the complete new archive, a "
                "reported error must leave the previous bytes, and the observed state must equal the model's state at that prefix; non-trivial = an injected run; distinct = "
                "distinct (case, injection)")
    res.assumptions = ["process death and I/O errors only (page cache survives): power loss and the ordering of data versus rename on disk are outside the model and the property",
                       "each system call is atomic with respect to SIGKILL (the kernel completes or does not start a write to the page cache)",
                       "ptrace injection on syscall entry stands for the process dying at that point"]
    mok, iok = C.standard_builds(res, "C12", ["impl_mpq"])
    if not (mok and iok):
        return res.finish()
    r = C.rng(seed, "C12")
    big = tier == "thorough"
    base = os.path.join(C.CACHE, "c12")
    shutil.rmtree(base, ignore_errors=True)
    os.makedirs(base)
    im = C.bin_path("impl_mpq")
    # ---------------------------------------------------------------- cases
    cases = []
    nb = 16 if big else 8
    for i in range(nb):
        ver = 1 + i % 4
        files = [("a.txt", c01.gen_content(r, 4, r.randrange(20, 400)), "d", 0), ("dir\\b.bin", c01.gen_content(r, 1, r.randrange(1, 300)), "0", r.choice([0, 1])),
                 ("big.dat", c01.gen_content(r, r.choice([1, 2]), r.choice([700, 5000, 20000 if big else 9000])), "d", 0)]
        files = files[: r.choice([1, 2, 3, 3])]
        cfg = "%d 0 %s %s %d %d 2" % (ver, r.choice(["g", "n"]), r.choice(["n", "c"]), r.choice([0, 1]), r.choice([0, 1]) if ver >= 3 else 0)
        cases.append({"kind": "build", "cfg": cfg, "files": files, "existing": [None, "garbage", "archive"][i % 3]})
    for i in range(8 if big else 4):
        ver = 1 + i % 2                       # MutableArchive on V3/V4 is a known C06 finding: compaction is exercised on V1/V2
        files = [("keep.txt", c01.gen_content(r, 4, r.randrange(50, 600)), "d", 0), ("gone.bin", c01.gen_content(r, 1, r.randrange(10, 300)), "0", 0),
                 ("z\\more.dat", c01.gen_content(r, 2, r.randrange(600, 3000)), "d", 0)]
        dirty = i % 2 == 1
        ops = "-"
        newstate = {n: d for n, d, _, _ in files}
        if dirty:
            nd = c01.gen_content(r, 4, r.randrange(10, 200))
            ops = "a.%s.%s.2.0.1,r.%s" % (C.hexs(b"new.txt"), C.hexs(nd), C.hexs(b"gone.bin"))
            newstate["new.txt"] = nd
            del newstate["gone.bin"]
        cases.append({"kind": "compact", "cfg": "%d 0 g n 0 0 2" % ver, "files": files, "ops": ops, "dirty": dirty, "old_state": {n: d for n, d, _, _ in files}, "new_state": newstate})
    # sessions that leave the number of entries as it is (removal only, renaming only, replacing one file) before compact()
    for i in range(6 if big else 3):
        ver = 1 + i % 2
        files = [("keep.txt", c01.gen_content(r, 4, r.randrange(50, 600)), "d", 0), ("gone.bin", c01.gen_content(r, 1, r.randrange(10, 300)), "0", 0),
                 ("z\\more.dat", c01.gen_content(r, 2, r.randrange(600, 3000)), "d", 0)]
        newstate = {n: d for n, d, _, _ in files}
        if i % 3 == 0:
            ops = "r.%s" % C.hexs(b"gone.bin")
            del newstate["gone.bin"]
        elif i % 3 == 1:
            ops = "m.%s.%s" % (C.hexs(b"keep.txt"), C.hexs(b"renamed.txt"))
            newstate["renamed.txt"] = newstate.pop("keep.txt")
        else:
            nd = c01.gen_content(r, 4, r.randrange(10, 200))
            ops = "a.%s.%s.2.0.1" % (C.hexs(b"gone.bin"), C.hexs(nd))
            newstate["gone.bin"] = nd
        cases.append({"kind": "compact", "cfg": "%d 0 g n 0 0 2" % ver, "files": files, "ops": ops, "dirty": True, "old_state": {n: d for n, d, _, _ in files}, "new_state": newstate})
    # rebuild_archive writes an archive to a destination path as well
    for i in range(6 if big else 3):
        ver = 1 + i % 4
        files = [("a.txt", c01.gen_content(r, 4, r.randrange(20, 400)), "d", 0), ("dir\\b.bin", c01.gen_content(r, 1, r.randrange(1, 300)), "0", 0),
                 ("big.dat", c01.gen_content(r, 2, r.choice([700, 5000])), "d", 0)][: 1 + i % 3]
        cases.append({"kind": "rebuild", "cfg": "%d 0 g n 0 0 2" % ver, "files": files, "existing": ["archive", None, "garbage"][i % 3]})

    def prepare(case, d):
        """fresh directory holding the pre-state; returns (dst, command)"""
        os.makedirs(d)
        dst = os.path.join(d, "out.mpq")
        if case["kind"] in ("build", "rebuild"):
            if case["existing"] == "garbage":
                with open(dst, "wb") as f:
                    f.write(b"previous content that is not an archive" * 7)
            elif case["existing"] == "archive":
                shutil.copy(case["prev_archive"], dst)
            cmd = [im, "build", dst] + case["cfg"].split(" ") + [c01.entries_token(case["files"])]
            if case["kind"] == "rebuild":
                cmd = [im, "rebuild", case["src_archive"], dst, "0", "-", "-", "0", "0"]
        else:
            shutil.copy(case["prev_archive"], dst)
            cmd = [im, "compactat", dst, case["ops"]]
        return dst, cmd

    # archives used as pre-existing destination / compaction source
    pl = []
    for ci, case in enumerate(cases):
        case["prev_archive"] = os.path.join(base, "prev%d.mpq" % ci)
        pf = case["files"] if case["kind"] == "compact" else [("old.txt", b"old archive content " * 5, "0", 0)]
        pl.append("build %s %s %s" % (case["prev_archive"], case["cfg"] if case["kind"] == "compact" else "1 0 g n 0 0 0", c01.entries_token(pf)))
    for ci, case in enumerate(cases):
        if case["kind"] == "rebuild":
            case["src_archive"] = os.path.join(base, "src%d.mpq" % ci)
            pl.append("build %s %s %s" % (case["src_archive"], case["cfg"], c01.entries_token(case["files"])))
    po = C.run_lines([im], pl)
    if any(o != "OK" for o in po):
        res.broken.append(("setup", {"out": po}))
        return res.finish()
    stats = {"kill": 0, "error_once": 0, "error_persistent": 0, "size_limit": 0, "states": {}, "reported_errors": 0, "reported_ok": 0}
    verdicts = []
    jobs = []
    for ci, case in enumerate(cases):
        # ---- clean traced run
        d = os.path.join(base, "c%d_clean" % ci)
        dst, cmd = prepare(case, d)
        old = open(dst, "rb").read() if os.path.exists(dst) else None
        rc, out = strace(cmd, os.path.join(base, "c%d.trace" % ci))
        marker = "/verif-marker-compact" if case["kind"] == "compact" else None
        ops, info, ids, ok = parse_trace(os.path.join(base, "c%d.trace" % ci), d, marker)
        label = "%s v%s existing=%s%s" % (case["kind"], case["cfg"].split(" ")[0], case.get("existing", "archive"), " dirty" if case.get("dirty") else "")
        res.case("clean " + label + " #%d" % ci)
        if not out.startswith("OK") or not os.path.exists(dst):
            res.broken.append(("trace", {"case": label, "out": out, "translator_ok": ok}))
            continue
        if not ok:
            # a call the translator does not model: the theorem cannot be applied to this trace; the injections below still search for a failing crash point
            res.broken.append(("trace", {"case": label, "what": "the trace contains file-system calls outside the model (e.g. copy_file_range): C12_discipline_sound cannot be applied", "translator_ok": ok}))
        new = open(dst, "rb").read()
        if case["kind"] == "compact":
            pre = d + "/out.mpq.pre"
            old = open(pre, "rb").read() if os.path.exists(pre) else old
        case.update(old=old, new=new)
        # model replay: the window starts at the marker; what happened before it is the initial state
        first = next((k for k, x in enumerate(info) if x["window"]), len(ops))
        dst_id = ids.get(dst, 0)
        wops = ops[first:]
        # descriptors opened before the window are re-established by keeping their open tokens (they do not change content)
        pre_opens = [t for t in ops[:first] if t.startswith("o.")]
        pre_opens = [t if int(t.split(".")[2], 16) != dst_id else ".".join(t.split(".")[:3] + ["0", "0"] + t.split(".")[5:]) for t in pre_opens]
        mline = "fstrace %x %s %s" % (dst_id, C.hexs(old) if old is not None else "none", ",".join(pre_opens + wops) or "-")
        mo = C.run_lines([C.MODELRUN], [mline], timeout=600)[0].split(" ")
        if len(mo) != 3:
            res.broken.append(("model-run", {"case": label, "out": " ".join(mo)[:200]}))
            mo = ["2", C.hexs(new), "?" * (len(pre_opens) + len(wops) + 1)]
        verdict, mfinal, letters = mo
        letters = letters[len(pre_opens):]
        verdicts.append({"case": label, "discipline": int(verdict, 16), "ops_in_window": len(wops), "states": "".join(sorted(set(letters)))})
        if mfinal != C.hexs(new) and ok:
            res.broken.append(("correspondence", {"what": "the file-system model replaying the traced calls ends with a different destination content than the real file", "case": label,
                                                   "model_len": len(mfinal) // 2, "real_len": len(new)}))
        expect_disciplined = not case.get("dirty")
        if expect_disciplined and int(verdict, 16) != 1:
            res.broken.append(("discipline", {"what": "the traced calls do not follow the atomic-replacement discipline the theorem needs (C12_discipline_sound does not apply)", "case": label,
                                               "verdict": int(verdict, 16), "ops": wops[:40]}))
        case.update(letters=letters, first=first, info=info, trace_ops=ops, label=label, modelled=ok)
        # ---- injections
        for k in range(first, len(ops)):
            nm, ordn = info[k]["name"], info[k]["ordinal"]
            jobs.append((ci, "kill", "%s:signal=SIGKILL:when=%d" % (nm, ordn), k - first, None))
            if nm in ("write", "pwrite64", "copy_file_range", "sendfile"):
                jobs.append((ci, "error_once", "%s:error=ENOSPC:when=%d" % (nm, ordn), k - first, None))
                jobs.append((ci, "error_persistent", "%s:error=ENOSPC:when=%d+" % (nm, ordn), k - first, None))
                if big:
                    jobs.append((ci, "error_once", "%s:error=EIO:when=%d" % (nm, ordn), k - first, None))
            elif nm in ("openat", "rename", "renameat", "renameat2"):
                jobs.append((ci, "error_once", "%s:error=EACCES:when=%d" % (nm, ordn), k - first, None))
                jobs.append((ci, "error_persistent", "%s:error=ENOSPC:when=%d+" % (nm, ordn), k - first, None))
            elif nm in ("lseek", "ftruncate", "fsync", "fdatasync", "close") and big:
                jobs.append((ci, "error_once", "%s:error=EIO:when=%d" % (nm, ordn), k - first, None))
        if not case.get("dirty"):
            lim = sorted(set([0, 1, 31, 32, 33, 100, 511, 512, 513] + [len(new) * j // (12 if big else 6) for j in range(1, 12 if big else 6)] + [len(new) - 1, len(new)]))
            for L in lim:
                jobs.append((ci, "size_limit", None, None, L))

    def do(job):
        n, (ci, kind, inject, prefix, limit) = job
        case = cases[ci]
        d = os.path.join(base, "r%d" % n)
        dst, cmd = prepare(case, d)
        if kind == "size_limit":
            def pre():
                signal.signal(signal.SIGXFSZ, signal.SIG_IGN)
                resource.setrlimit(resource.RLIMIT_FSIZE, (limit, limit))
            try:
                p = subprocess.run(cmd, capture_output=True, text=True, timeout=60, preexec_fn=pre)
                rc, out = p.returncode, p.stdout.strip()
            except subprocess.TimeoutExpired:
                rc, out = -99, "TIMEOUT"
        else:
            rc, out = strace(cmd, os.path.join(d, "t.txt"), inject)
        letter = state_letter(dst, case["old"], case["new"])
        extra = None
        if letter in ("X", "-"):
            # a third state: does it open and read back one of the two archive states completely?
            if case["kind"] == "compact" and os.path.exists(dst):
                names = sorted(set(case["old_state"]) | set(case["new_state"]))
                o = C.run_lines([im], ["readall %s %s" % (dst, ",".join(C.hexs(x.encode()) for x in names))], timeout=60)[0]
                got = {}
                if " | " in o:
                    for it in o.split(" | ")[0].split(","):
                        a, b = it.split(">", 1)
                        got[bytes.fromhex(a).decode()] = b
                    def matches(st):
                        return all(got.get(x) == ("OK:" + C.hexs(st[x]) if x in st else "NOTFOUND") for x in names)
                    extra = "reads-as-old" if matches(case["old_state"]) else "reads-as-new" if matches(case["new_state"]) else "reads-as-neither"
                else:
                    extra = "does-not-open"
        partial = [f for f in os.listdir(d) if f not in ("out.mpq", "out.mpq.pre", "t.txt")]
        shutil.rmtree(d, ignore_errors=True)
        return n, letter, out, extra, partial

    with ThreadPoolExecutor(C.NPROC) as ex:
        results = list(ex.map(do, list(enumerate(jobs))))
    for (n, letter, out, extra, partial), (ci, kind, inject, prefix, limit) in zip(results, jobs):
        case = cases[ci]
        stats[kind] += 1
        stats["states"][letter] = stats["states"].get(letter, 0) + 1
        res.case("%d|%s|%s|%s" % (ci, kind, inject, limit), nontrivial=True)
        cj = {"case": case["label"], "command": "impl_mpq " + ("build <dst> %s %s" % (case["cfg"], c01.entries_token(case["files"])[:300]) if case["kind"] == "build" else "rebuild <src built with %s %s> <dst> 0 - - 0 0" % (case["cfg"], c01.entries_token(case["files"])[:300]) if case["kind"] == "rebuild" else "compactat <dst> " + case["ops"][:300]),
              "existing_destination": case.get("existing", "archive"), "injection": inject or "RLIMIT_FSIZE=%s" % limit, "destination_state": letter, "reported": out[:80], "third_state": extra}
        shape = case["kind"] + ("-dirty" if case.get("dirty") else "")
        if letter in ("X", "-") and extra not in ("reads-as-old", "reads-as-new"):
            res.failing.append(("partial-destination-%s" % shape, "after %s the destination holds neither its previous content nor the complete new archive (%s)" % (cj["injection"], extra or "bytes differ"), cj))
        if kind != "kill":
            if out.startswith("OK"):
                stats["reported_ok"] += 1
                if letter != "N" and not (case["old"] == case["new"]):
                    res.failing.append(("ok-without-new-archive-%s" % shape, "the operation reported success but the destination does not hold the complete new archive", cj))
            elif out and out not in ("TIMEOUT",):
                stats["reported_errors"] += 1
                if letter == "N" and case["old"] != case["new"] and case["kind"] in ("build", "rebuild"):
                    res.failing.append(("error-but-destination-replaced", case["kind"] + " reported an error and replaced the destination", cj))
                if letter not in ("O", "N") and extra not in ("reads-as-old", "reads-as-new"):
                    pass        # already reported above
                if case["kind"] in ("build", "rebuild") and letter != "O":
                    res.failing.append(("error-touched-destination", case["kind"] + " reported an error but the previous destination content is not intact", cj))
        if kind == "kill" and prefix is not None and "letters" in case and not case.get("dirty") and case.get("modelled"):
            ml = case["letters"][prefix] if prefix < len(case["letters"]) else "?"
            if ml != letter:
                res.broken.append(("correspondence", {"what": "destination state after killing the process differs from the model's state at that prefix", "case": case["label"], "injection": inject,
                                                       "model": ml, "real": letter}))
    res.extra["injections"] = {k: v for k, v in stats.items() if k != "states"}
    res.extra["destination_states_observed"] = stats["states"]
    res.extra["traces"] = verdicts
    if verdicts:
        res.sample(verdicts[0])
    res.sample({"injection": jobs[0][2], "state": results[0][1]} if jobs else {})
    res.traces = len(jobs)
    shutil.rmtree(base, ignore_errors=True)
    return res.finish()
