"""C15 - WMO root and group files survive write -> parse unchanged."""
import os, re, shutil, struct
from . import common as C

VERS = ["11", "12", "13", "14", "15", "16", "17"]


def first_field(diff):
    d = diff.split(",")[0]
    d = re.sub(r"\[\d+\]", "", d)
    d = re.sub(r"\(.*\)", "", d)
    return d.replace(".", "_")


def motx(raw):
    p = 0
    while p + 8 <= len(raw):
        cid, sz = raw[p:p + 4], struct.unpack_from("<I", raw, p + 4)[0]
        if cid == b"XTOM":
            return raw[p + 8:p + 8 + sz]
        p += 8 + sz
    return None


def run(tier, seed, replay=None):
    res = C.Result("C15", tier, seed)
    res.rule = ("generated WMO roots (textures / groups / doodad sets with names sharing prefixes, set names of exactly 17 / 18 / 19 bytes and group names with multi-byte characters on half of the roots, materials, group infos, portals and references, visibility lists, lights, skybox; "
                "each list empty / one / many) in every version the writer accepts: write_root -> parse_root -> write_root: parsed content equal to the object, second write "
                "byte-identical, every header count equal to the length of its list, chunk framing decided by the extracted proved walk, texture names found at the offsets the "
                "proved name-table function computes; generated groups through write_group / parsers; convert_root over the whole matrix of versions (with and without skybox) and convert_group over version pairs: content representable in "
                "both versions kept, same-version conversion the identity; non-trivial = root with two or more names in a table or a conversion; distinct = distinct command")
    res.assumptions = ["objects are compared field by field on the library's structures (debug strings, no PartialEq)",
                       "fields that have no slot in the file format (framebuffer blend, light properties, doodad set index, group materials) are generated with their default values in the main "
                       "campaign; non-default values are cases of their own (listed findings)"]
    mok, iok = C.standard_builds(res, "C15", ["impl_wmo"])
    if not (mok and iok):
        return res.finish()
    r = C.rng(seed, "C15")
    big = tier == "thorough"
    ib = [C.bin_path("impl_wmo")]
    cases = []          # (tag, command)
    sizes = lambda: (r.choice([0, 1, 3, 7]), r.choice([0, 1, 2, 5]), r.choice([0, 1, 2, 4]), r.choice([0, 1, 3]), r.choice([0, 2, 4]), r.choice([0, 1, 3]), r.choice([0, 1, 4]), 0, r.choice([0, 1, 3, 6]))
    for i in range(700 if big else 44):
        ver = VERS[i % len(VERS)]
        nt, nm, ng, npo, npr, nv, nl, nd, ns = sizes()
        if nm and not nt:
            nt = 1
        sky = r.choice([0, 1]) if ver != "11" else 0
        cases.append((None, "root %s %x %x %x %x %x %x %x %x %x %x %x" % (ver, 8 * r.randrange(1, 4000), nt, nm, ng, npo, npr, nv, nl, nd, ns, sky)))
    # stale cached header counts (as after an edit): the written counts must still describe the lists
    for i in range(60 if big else 4):
        cases.append(("stale-counts", "rootstale %s %x 3 2 %x 1 2 2 2 %x 2 0" % (VERS[i % len(VERS)], 8 * r.randrange(1, 999), r.choice([1, 2]), r.choice([0, 2, 3]))))
    # listed findings, each in a case of its own
    cases += [("named-versions", "root %s 8 3 2 1 1 2 2 2 0 2 1" % v) for v in ("tbc", "wotlk", "cata", "mop")]
    cases += [("doodad-names", "root 12 10 3 2 1 1 1 1 1 %x 1 0" % n) for n in (1, 3)]
    cases += [("slotless-fields", "root 12 %x 3 2 1 1 2 2 2 0 2 0" % s) for s in (1, 9)]
    cases += [("convex-volume", "root 17 %x 2 1 1 0 0 0 0 0 0 0" % s) for s in (2, 10)]
    cases += [("header-bounds", "root 12 %x 3 2 2 1 2 2 2 0 2 0" % s) for s in (4, 12)]
    cases += [("group", "group %s %x %x %x %x %x %x %x %x" % (v, 8 * r.randrange(1, 99), nv, ni, nb, nbsp, col, liq, ndr))
              for v, (nv, ni, nb, nbsp, col, liq, ndr) in (("11", (8, 12, 2, 3, 1, 0, 2)), ("12", (4, 6, 1, 0, 0, 0, 0)), ("11", (8, 12, 2, 3, 1, 1, 2)))]
    # conversions
    pairs = [("11", "12"), ("12", "11"), ("12", "14"), ("14", "12"), ("13", "17"), ("17", "13"), ("12", "12"), ("11", "11"), ("17", "17"), ("mop", "12"), ("12", "mop")]
    for a, b in pairs:
        cases.append(("named-versions" if "mop" in (a, b) else None, "convroot %s %s %x 3 2 1 1 2 2 2 0 2 %d" % (a, b, 8 * r.randrange(1, 999), 0 if "11" in (a, b) else 1)))
    cases += [("conv-flags", "convroot 11 wotlk 8 2 2 1 1 1 1 1 0 1 1"), ("conv-flags", "convroot mop 11 9 2 2 1 1 1 1 1 0 1 0")]
    # the whole matrix of root conversions, with and without a skybox (objects of versions that cannot hold a skybox are built without one)
    allv = ["11", "12", "13", "14", "17", "tbc", "wotlk", "cata", "mop"]
    for a in allv:
        for b in allv:
            for sky in ((0,) if a in ("11", "tbc") else (0, 1)):
                cases.append(("named-versions" if b in ("tbc", "wotlk", "cata", "mop") else None,
                              "convroot %s %s %x 3 2 1 1 2 2 2 0 %x %d" % (a, b, 8 * r.randrange(1, 999), r.choice([2, 6]), sky)))
    for a, b in [("11", "12"), ("12", "11"), ("17", "13"), ("12", "12"), ("11", "cata"), ("17", "cata"), ("cata", "17"), ("13", "12")]:
        cases.append((None, "convgroup %s %s %x 5 9 2 2 1 0 3" % (a, b, 8 * r.randrange(1, 999))))
    # groups carrying the Cataclysm-era flags, converted between versions that all have them
    for a, b in [("17", "cata"), ("mop", "cata"), ("cata", "mop"), ("12", "cata"), ("cata", "12"), ("13", "mop")]:
        for sd in (1, 3, 5, 7):
            cases.append((None, "convgroup %s %s %x 5 9 2 2 1 0 3" % (a, b, sd + 8 * r.randrange(1, 99))))
    cases += [("conv-flags", "convgroup 17 11 5 5 9 2 2 1 1 3")]
    io = C.run_lines(ib, [c for _, c in cases], shards=C.NPROC, timeout=3000)
    # model: framing of every written root, texture name table
    fl, fmeta = [], []
    for k, ((tag, c), o) in enumerate(zip(cases, io)):
        if not c.startswith("root "):
            continue
        d = dict(x.split("=", 1) for x in o.split(" ") if "=" in x)
        w1 = d.get("W1", "")
        if not w1 or w1.startswith(("WRITE", "-")):
            continue
        fl.append("framing " + w1)
        fmeta.append((k, "framing"))
        blk = motx(bytes.fromhex(w1))
        names = d.get("ONAMES", "||").split("|")[0]
        if blk is not None and names and names != "-":
            fl.append("nametable %s %s" % (C.hexs(blk), names))
            fmeta.append((k, "names"))
    mo = C.run_lines([C.MODELRUN], fl, shards=C.NPROC, timeout=3000)
    model = {}
    for (k, nm), o in zip(fmeta, mo):
        model.setdefault(k, {})[nm] = o
    stats = {"roots_equal": 0, "counts_checked": 0, "framing_checked": 0, "name_tables_checked": 0, "conversions_kept": 0}
    for k, ((tag, c), o) in enumerate(zip(cases, io)):
        kind = c.split(" ")[0]
        p = c.split(" ")
        nontriv = kind.startswith("conv") or (kind == "root" and (int(p[3], 16) > 1 or int(p[5], 16) > 1))
        res.case(c, nontrivial=nontriv)
        d = dict(x.split("=", 1) for x in o.split(" ") if "=" in x)
        case = {"command": c, "result": " ".join(x for x in o.split(" ") if not x.startswith(("W1=", "W=", "NAMES=", "ONAMES=", "API=")))[:700]}
        suffix = ("-" + tag) if tag else ""
        if o in ("PANIC", "ABORT", "TIMEOUT") or not d:
            res.failing.append(("crash" + suffix, "the runner reports %s" % o[:40], case))
            continue
        if kind == "rootstale":
            cnt = dict(x.split(":") for x in d.get("COUNTS", "").split(",") if ":" in x)
            lst = dict(x.split(":") for x in d.get("LISTS", "").split(",") if ":" in x)
            pairs_ = [("n_materials", "materials"), ("n_groups", "groups"), ("n_portals", "portals"), ("n_lights", "lights"), ("n_doodad_defs", "doodad_defs"), ("n_doodad_sets", "doodad_sets")]
            bad = [(a, cnt.get(a), lst.get(b)) for a, b in pairs_ if cnt.get(a) != lst.get(b)]
            modn = [x for x in d.get("NAMES", "||").split("|")[2].split(",") if x and x != "-"]
            if cnt.get("n_doodad_names") is not None and int(cnt["n_doodad_names"], 16) != len(modn):
                bad.append(("n_doodad_names", cnt["n_doodad_names"], "%x" % len(modn)))
            stats["counts_checked"] += 1
            if not cnt or bad:
                res.failing.append(("header-count-%s" % (bad[0][0] if bad else "missing"), "written header count %s = %s but the file holds %s entries (object with stale cached counts)" % (bad[0] if bad else ("?", "?", "?")), case))
            continue
        if kind in ("root", "group"):
            w1 = d.get("W1", "")
            if w1.startswith("WRITE"):
                res.failing.append(("write-fails-%s%s" % (kind, suffix), "the writer fails on a generated %s: %s" % (kind, w1[:80]), case))
                continue
            if d.get("EQ") != "1":
                df = d.get("DIFF", "-")
                key = "parse-fails-%s" % kind if df.startswith(("PARSE", "API")) else "%s-differs-%s" % (kind, first_field(df))
                res.failing.append((key + suffix, "write -> parse of a %s does not give the object back: %s" % (kind, df[:160]), case))
                continue
            if d.get("SAME") != "1":
                res.failing.append(("second-write-differs-%s%s" % (kind, suffix), "writing the parsed %s again gives different bytes" % kind, case))
                continue
            if d.get("FRAME") != "1":
                res.failing.append(("framing-%s%s" % (kind, suffix), "chunk framing of the written %s does not tile the file" % kind, case))
                continue
            if kind == "root":
                stats["roots_equal"] += 1
                cnt = dict(x.split(":") for x in d.get("COUNTS", "").split(",") if ":" in x)
                lst = dict(x.split(":") for x in d.get("LISTS", "").split(",") if ":" in x)
                pairs_ = [("n_materials", "materials"), ("n_groups", "groups"), ("n_portals", "portals"), ("n_lights", "lights"), ("n_doodad_defs", "doodad_defs"), ("n_doodad_sets", "doodad_sets")]
                bad = [(a, cnt.get(a), lst.get(b)) for a, b in pairs_ if cnt.get(a) != lst.get(b)]
                modn = [x for x in d.get("NAMES", "||").split("|")[2].split(",") if x and x != "-"]
                if cnt.get("n_doodad_names") is not None and int(cnt["n_doodad_names"], 16) != len(modn):
                    bad.append(("n_doodad_names", cnt["n_doodad_names"], "%x" % len(modn)))
                stats["counts_checked"] += 1
                if bad:
                    res.failing.append(("header-count-%s%s" % (bad[0][0], suffix), "header count %s = %s but the list has %s entries" % bad[0], case))
                    continue
                mk = model.get(k, {})
                if "framing" in mk:
                    stats["framing_checked"] += 1
                    if not mk["framing"].endswith("TILES=1"):
                        res.failing.append(("framing-root" + suffix, "the proved walk does not tile the written root exactly", dict(case, model=mk["framing"][-80:])))
                        continue
                if "names" in mk:
                    stats["name_tables_checked"] += 1
                    if mk["names"] != "1":
                        res.failing.append(("texture-name-table" + suffix, "a texture name is not found at the offset of its position in the MOTX table (%s)" % mk["names"][:60], case))
        else:
            if not d.get("CONV", "").startswith("OK"):
                res.failing.append(("conversion-fails" + suffix, "conversion fails: %s" % d.get("CONV", "")[:80], case))
                continue
            if kind == "convgroup" and tag is None and "OFLAGS" in d:
                # the flag rule of the converter itself: the Cataclysm-era group flags survive every target from Cataclysm on,
                # the Legion flag every target from Legion on; other flags are never touched
                era = {"cata": 4, "mop": 5, "12": 6, "13": 7, "14": 8, "15": 9, "16": 10, "17": 11, "11": 0, "tbc": 1, "wotlk": 2}
                to = era.get(p[2], 0)
                keepmask = 0xffffffff & ~0x3c000 | (0x2c000 if to >= 4 else 0) | (0x10000 if to >= 7 else 0)
                of, cf = int(d["OFLAGS"], 16), int(d["CFLAGS"], 16)
                if (of & keepmask) != (cf & keepmask):
                    res.failing.append(("conversion-loses-group-flags", "convert_group to %s changes group flags that the target version has: %08x -> %08x" % (p[2], of, cf), case))
                    continue
                if [x for x in d.get("LOST", "-").split(",") if x not in ("-", "header.flags")]:
                    res.failing.append(("conversion-loses-%s" % first_field(",".join(x for x in d["LOST"].split(",") if x != "header.flags")), "conversion changes content that both versions can hold: %s" % d["LOST"][:160], case))
                    continue
                stats["conversions_kept"] += 1
                continue
            if d.get("KEPT") != "1":
                res.failing.append(("conversion-loses-%s%s" % (first_field(d.get("LOST", "-")), suffix), "conversion changes content that both versions can hold: %s" % d.get("LOST", "")[:160], case))
                continue
            if d.get("IDENT") not in ("1", "-"):
                res.failing.append(("same-version-conversion-changes" + suffix, "converting to the same version changes the object", case))
                continue
            if kind == "convroot" and d.get("EQ") != "1":
                res.failing.append(("converted-root-differs-%s%s" % (first_field(d.get("DIFF", "-")), suffix), "the converted root does not survive write -> parse: %s" % d.get("DIFF", "")[:160], case))
                continue
            stats["conversions_kept"] += 1
    res.extra["checked"] = stats
    res.extra["cases"] = len(cases)
    res.sample({"command": cases[0][1], "result": " ".join(x for x in io[0].split(" ") if not x.startswith(("W1=", "API=")))[:300]})
    res.traces = len(cases)
    return res.finish()
