#!/usr/bin/env python3
"""Constants translator: regenerates coq/Gen/Consts.v from /repo's CURRENT sources.

Every value is taken textually from the Rust source named beside it.  When a
pattern is not found any more (a refactor moved the literal) the value recorded
in DEFAULTS (the pinned tree's value) is emitted instead and the miss is listed
in coq/Gen/consts_report.json; the functional correspondence checks then decide
whether behaviour changed.  The file is rewritten only when its content changes
so that `make` stays incremental.
"""
import json, os, re, sys

REPO = os.environ.get("VERIF_REPO", "/repo")
OUT = os.path.join(os.path.dirname(os.path.abspath(__file__)), "..", "coq", "Gen", "Consts.v")
MPQ = "file-formats/archives/wow-mpq/src/"


def read(rel):
    try:
        with open(os.path.join(REPO, rel), encoding="utf-8", errors="replace") as f:
            return f.read()
    except OSError:
        return ""


def strip_comments(s):
    s = re.sub(r"//[^\n]*", "", s)
    return re.sub(r"/\*.*?\*/", "", s, flags=re.S)


def num(tok):
    tok = tok.replace("_", "")
    tok = re.sub(r"(u8|u16|u32|u64|usize|i32|i64|f32)$", "", tok)
    return int(tok, 16) if tok.lower().startswith("0x") else int(tok)


NUM = r"(0x[0-9A-Fa-f_]+|[0-9][0-9_]*)(?:u8|u16|u32|u64|usize)?"

# (coq name, file, regex with one group, default)
SCALARS = [
    # crypt table generator (crypto/keys.rs)
    ("ct_seed", MPQ + "crypto/keys.rs", r"let\s+mut\s+seed\s*:\s*u32\s*=\s*" + NUM, 0x00100001),
    ("ct_mul", MPQ + "crypto/keys.rs", r"seed\.wrapping_mul\(\s*" + NUM + r"\s*\)", 125),
    ("ct_inc", MPQ + "crypto/keys.rs", r"seed\.wrapping_mul\([^)]*\)\.wrapping_add\(\s*" + NUM + r"\s*\)", 3),
    ("ct_mod", MPQ + "crypto/keys.rs", r"wrapping_add\([^)]*\)\s*%\s*" + NUM, 0x2AAAAB),
    ("ct_rows", MPQ + "crypto/keys.rs", r"while\s+index1\s*<\s*" + NUM, 0x100),
    ("ct_cols", MPQ + "crypto/keys.rs", r"while\s+index2\s*<\s*" + NUM, 5),
    ("ct_stride", MPQ + "crypto/keys.rs", r"index1\s*\+\s*index2\s*\*\s*" + NUM, 0x100),
    ("ct_shift", MPQ + "crypto/keys.rs", r"\(seed\s*&\s*0xFFFF\)\s*<<\s*" + NUM, 0x10),
    ("ct_len", MPQ + "crypto/keys.rs", r"ENCRYPTION_TABLE\s*:\s*\[u32;\s*" + NUM + r"\s*\]", 0x500),
    # name hash (crypto/hash.rs)
    ("hs_seed1", MPQ + "crypto/hash.rs", r"let\s+mut\s+seed1\s*:\s*u32\s*=\s*" + NUM, 0x7FED7FED),
    ("hs_seed2", MPQ + "crypto/hash.rs", r"let\s+mut\s+seed2\s*:\s*u32\s*=\s*" + NUM, 0xEEEEEEEE),
    ("hs_shift", MPQ + "crypto/hash.rs", r"seed2\s*<<\s*" + NUM, 5),
    ("hs_inc", MPQ + "crypto/hash.rs", r"seed2\s*<<\s*[0-9]+\)\s*\.wrapping_add\(\s*" + NUM, 3),
    # hash types (crypto/types.rs)
    ("ht_table_offset", MPQ + "crypto/types.rs", r"TABLE_OFFSET\s*:\s*u32\s*=\s*" + NUM, 0x000),
    ("ht_name_a", MPQ + "crypto/types.rs", r"NAME_A\s*:\s*u32\s*=\s*" + NUM, 0x100),
    ("ht_name_b", MPQ + "crypto/types.rs", r"NAME_B\s*:\s*u32\s*=\s*" + NUM, 0x200),
    ("ht_file_key", MPQ + "crypto/types.rs", r"FILE_KEY\s*:\s*u32\s*=\s*" + NUM, 0x300),
    ("ht_key2_mix", MPQ + "crypto/types.rs", r"KEY2_MIX\s*:\s*u32\s*=\s*" + NUM, 0x400),
    # block cipher: encryption side
    ("enc_seed", MPQ + "crypto/encryption.rs", r"let\s+mut\s+seed\s*:\s*u32\s*=\s*" + NUM, 0xEEEEEEEE),
    ("enc_tbl_off", MPQ + "crypto/encryption.rs", r"ENCRYPTION_TABLE\[\s*" + NUM + r"\s*\+", 0x400),
    ("enc_key_mask", MPQ + "crypto/encryption.rs", r"\(key\s*&\s*" + NUM + r"\)", 0xFF),
    ("enc_key_shl", MPQ + "crypto/encryption.rs", r"!key\s*<<\s*" + NUM, 0x15),
    ("enc_key_add", MPQ + "crypto/encryption.rs", r"!key\s*<<[^)]*\)\.wrapping_add\(\s*" + NUM, 0x11111111),
    ("enc_key_shr", MPQ + "crypto/encryption.rs", r"key\s*>>\s*" + NUM, 0x0B),
    ("enc_seed_shl", MPQ + "crypto/encryption.rs", r"seed\s*<<\s*" + NUM, 5),
    ("enc_seed_inc", MPQ + "crypto/encryption.rs", r"seed\s*<<\s*[0-9]+\)\s*\.wrapping_add\(\s*" + NUM, 3),
    # block cipher: decryption side
    ("dec_seed", MPQ + "crypto/decryption.rs", r"let\s+mut\s+seed\s*:\s*u32\s*=\s*" + NUM, 0xEEEEEEEE),
    ("dec_tbl_off", MPQ + "crypto/decryption.rs", r"ENCRYPTION_TABLE\[\s*" + NUM + r"\s*\+", 0x400),
    ("dec_key_mask", MPQ + "crypto/decryption.rs", r"\(key\s*&\s*" + NUM + r"\)", 0xFF),
    ("dec_key_shl", MPQ + "crypto/decryption.rs", r"!key\s*<<\s*" + NUM, 0x15),
    ("dec_key_add", MPQ + "crypto/decryption.rs", r"!key\s*<<[^)]*\)\.wrapping_add\(\s*" + NUM, 0x11111111),
    ("dec_key_shr", MPQ + "crypto/decryption.rs", r"key\s*>>\s*" + NUM, 0x0B),
    ("dec_seed_shl", MPQ + "crypto/decryption.rs", r"seed\s*<<\s*" + NUM, 5),
    ("dec_seed_inc", MPQ + "crypto/decryption.rs", r"seed\s*<<\s*[0-9]+\)\s*\.wrapping_add\(\s*" + NUM, 3),
]

ARRAYS = [
    ("ascii_to_upper", MPQ + "crypto/keys.rs", r"ASCII_TO_UPPER\s*:\s*\[u8;\s*256\]\s*=\s*\[(.*?)\];", 256),
    ("ascii_to_lower", MPQ + "crypto/keys.rs", r"ASCII_TO_LOWER\s*:\s*\[u8;\s*256\]\s*=\s*\[(.*?)\];", 256),
]

WDT = "file-formats/world-data/wow-wdt/src/"
FLT = r"([0-9][0-9_]*\.[0-9_]+(?:[eE][-+]?[0-9]+)?)(?:f32)?"

# f32 literals, emitted as their IEEE-754 binary32 bit patterns (round-to-nearest-even
# of the decimal literal, which is what rustc does)
FLOATS = [
    ("wdt_t2w_map_size_bits", WDT + "lib.rs", r"fn\s+tile_to_world.*?const\s+MAP_SIZE\s*:\s*f32\s*=\s*" + FLT, 533.3333),
    ("wdt_t2w_half_tiles_bits", WDT + "lib.rs", r"fn\s+tile_to_world.*?const\s+MAP_OFFSET\s*:\s*f32\s*=\s*" + FLT + r"\s*\*\s*MAP_SIZE", 32.0),
    ("wdt_w2t_map_size_bits", WDT + "lib.rs", r"fn\s+world_to_tile.*?const\s+MAP_SIZE\s*:\s*f32\s*=\s*" + FLT, 533.3333),
    ("wdt_w2t_half_tiles_bits", WDT + "lib.rs", r"fn\s+world_to_tile.*?const\s+MAP_OFFSET\s*:\s*f32\s*=\s*" + FLT + r"\s*\*\s*MAP_SIZE", 32.0),
    ("wdt_w2t_eps_bits", WDT + "lib.rs", r"fn\s+world_to_tile.*?const\s+TILE_EPSILON\s*:\s*f32\s*=\s*" + FLT, 1.0e-4),
]

SEC = MPQ + "security.rs"
EXTRA = [
    # default SecurityLimits (first `impl Default for SecurityLimits`)
    ("sec_max_archive_gib", SEC, r"impl\s+Default\s+for\s+SecurityLimits.*?max_archive_size\s*:\s*" + NUM + r"\s*\*\s*1024\s*\*\s*1024\s*\*\s*1024", 4),
    ("sec_max_hash_entries", SEC, r"impl\s+Default\s+for\s+SecurityLimits.*?max_hash_entries\s*:\s*" + NUM, 1000000),
    ("sec_max_block_entries", SEC, r"impl\s+Default\s+for\s+SecurityLimits.*?max_block_entries\s*:\s*" + NUM, 1000000),
    ("sec_max_sector_shift", SEC, r"impl\s+Default\s+for\s+SecurityLimits.*?max_sector_shift\s*:\s*" + NUM, 20),
    ("sec_table_tolerance", SEC, r"archive_size\.saturating_add\(\s*" + NUM, 65536),
    ("sec_header_min", SEC, r"\(\s*" + NUM + r"\s*\.\.=\s*[0-9]+\s*\)\.contains\(&header_size\)", 32),
    ("sec_header_max", SEC, r"\(\s*[0-9]+\s*\.\.=\s*" + NUM + r"\s*\)\.contains\(&header_size\)", 1024),
    ("sec_max_ratio", SEC, r"impl\s+Default\s+for\s+SecurityLimits.*?max_compression_ratio\s*:\s*" + NUM, 1000),
    ("sec_max_decompressed_mib", SEC, r"impl\s+Default\s+for\s+SecurityLimits.*?max_decompressed_size\s*:\s*" + NUM + r"\s*\*\s*1024\s*\*\s*1024", 100),
    ("sec_max_session_mib", SEC, r"impl\s+Default\s+for\s+SecurityLimits.*?max_session_decompressed\s*:\s*" + NUM + r"\s*\*\s*1024\s*\*\s*1024", 1024),
    # adaptive limit bands and multipliers (calculate_limit)
    ("ad_band1", SEC, r"0\s*\.\.=\s*" + NUM + r"\s*=>\s*self\.base_limit\s*\*", 512),
    ("ad_mul1", SEC, r"0\s*\.\.=\s*[0-9]+\s*=>\s*self\.base_limit\s*\*\s*" + NUM, 10),
    ("ad_band2", SEC, r"513\s*\.\.=\s*" + NUM, 4096),
    ("ad_mul2", SEC, r"513\s*\.\.=\s*[0-9]+\s*=>\s*self\.base_limit\s*\*\s*" + NUM, 5),
    ("ad_band3", SEC, r"4097\s*\.\.=\s*" + NUM, 65536),
    ("ad_mul3", SEC, r"4097\s*\.\.=\s*[0-9]+\s*=>\s*self\.base_limit\s*\*\s*" + NUM, 2),
    ("ad_band4", SEC, r"65537\s*\.\.=\s*" + NUM, 1048576),
    ("ad_div5", SEC, r"_\s*=>\s*self\.base_limit\s*/\s*" + NUM, 2),
    ("ad_zlib_mul", SEC, r"0x02\s*=>\s*size_based_limit\s*\*\s*" + NUM, 2),
    ("ad_bzip2_mul", SEC, r"0x10\s*=>\s*size_based_limit\s*\*\s*" + NUM, 3),
    ("ad_lzma_mul", SEC, r"0x12\s*=>\s*size_based_limit\s*\*\s*" + NUM, 4),
    ("ad_sparse_div", SEC, r"0x20\s*=>\s*size_based_limit\s*/\s*" + NUM, 2),
    ("ad_huffman_div", SEC, r"0x01\s*=>\s*size_based_limit\s*/\s*" + NUM, 2),
    ("ad_adpcm_mul", SEC, r"0x40\s*\|\s*0x80\s*=>\s*size_based_limit\s*\*\s*" + NUM, 2),
    ("ad_clamp_lo", SEC, r"method_based_limit\.clamp\(\s*" + NUM, 50),
    ("ad_clamp_hi", SEC, r"method_based_limit\.clamp\(\s*[0-9_]+\s*,\s*" + NUM, 50000),
    ("sec_tiny_c", SEC, r"compressed_size\s*<\s*" + NUM + r"\s*&&\s*decompressed_size\s*>", 100),
    ("sec_tiny_n_mib", SEC, r"compressed_size\s*<\s*[0-9]+\s*&&\s*decompressed_size\s*>\s*" + NUM + r"\s*\*\s*1024\s*\*\s*1024", 10),
    ("sec_multi_threshold", SEC, r"if\s+compression_method\s*>\s*" + NUM, 0x80),
    ("sec_result_tolerance", MPQ + "compression/decompress.rs", r"result\.len\(\)\s+as\s+u64,\s*" + NUM, 10),
    ("cm_huffman", MPQ + "compression/methods.rs", r"HUFFMAN\s*:\s*u8\s*=\s*" + NUM, 1),
    ("cm_zlib", MPQ + "compression/methods.rs", r"ZLIB\s*:\s*u8\s*=\s*" + NUM, 2),
    ("cm_implode", MPQ + "compression/methods.rs", r"IMPLODE\s*:\s*u8\s*=\s*" + NUM, 4),
    ("cm_pkware", MPQ + "compression/methods.rs", r"PKWARE\s*:\s*u8\s*=\s*" + NUM, 8),
    ("cm_bzip2", MPQ + "compression/methods.rs", r"BZIP2\s*:\s*u8\s*=\s*" + NUM, 0x10),
    ("cm_sparse", MPQ + "compression/methods.rs", r"SPARSE\s*:\s*u8\s*=\s*" + NUM, 0x20),
    ("cm_adpcm_mono", MPQ + "compression/methods.rs", r"ADPCM_MONO\s*:\s*u8\s*=\s*" + NUM, 0x40),
    ("cm_adpcm_stereo", MPQ + "compression/methods.rs", r"ADPCM_STEREO\s*:\s*u8\s*=\s*" + NUM, 0x80),
    ("cm_lzma", MPQ + "compression/methods.rs", r"LZMA\s*:\s*u8\s*=\s*" + NUM, 0x12),
    ("fl_implode", MPQ + "tables/block.rs", r"FLAG_IMPLODE\s*:\s*u32\s*=\s*" + NUM, 0x100),
    ("fl_compress", MPQ + "tables/block.rs", r"FLAG_COMPRESS\s*:\s*u32\s*=\s*" + NUM, 0x200),
    ("fl_encrypted", MPQ + "tables/block.rs", r"FLAG_ENCRYPTED\s*:\s*u32\s*=\s*" + NUM, 0x10000),
    ("fl_fix_key", MPQ + "tables/block.rs", r"FLAG_FIX_KEY\s*:\s*u32\s*=\s*" + NUM, 0x20000),
    ("fl_patch_file", MPQ + "tables/block.rs", r"FLAG_PATCH_FILE\s*:\s*u32\s*=\s*" + NUM, 0x100000),
    ("fl_single_unit", MPQ + "tables/block.rs", r"FLAG_SINGLE_UNIT\s*:\s*u32\s*=\s*" + NUM, 0x1000000),
    ("fl_delete_marker", MPQ + "tables/block.rs", r"FLAG_DELETE_MARKER\s*:\s*u32\s*=\s*" + NUM, 0x2000000),
    ("fl_sector_crc", MPQ + "tables/block.rs", r"FLAG_SECTOR_CRC\s*:\s*u32\s*=\s*" + NUM, 0x4000000),
    ("fl_exists", MPQ + "tables/block.rs", r"FLAG_EXISTS\s*:\s*u32\s*=\s*" + NUM, 0x80000000),
    ("he_never_used", MPQ + "tables/hash.rs", r"EMPTY_NEVER_USED\s*:\s*u32\s*=\s*" + NUM, 0xFFFFFFFF),
    ("he_deleted", MPQ + "tables/hash.rs", r"EMPTY_DELETED\s*:\s*u32\s*=\s*" + NUM, 0xFFFFFFFE),
    ("mpq_signature", MPQ + "header.rs", r"MPQ_HEADER_SIGNATURE\s*:\s*u32\s*=\s*" + NUM, 0x1A51504D),
    ("hdr_size_v1", MPQ + "header.rs", r"FormatVersion::V1\s*=>\s*" + NUM, 0x20),
    ("hdr_size_v2", MPQ + "header.rs", r"FormatVersion::V2\s*=>\s*" + NUM, 0x2C),
    ("hdr_size_v3", MPQ + "header.rs", r"FormatVersion::V3\s*=>\s*" + NUM, 0x44),
    ("hdr_size_v4", MPQ + "header.rs", r"FormatVersion::V4\s*=>\s*" + NUM, 0xD0),
    ("sector_base", MPQ + "lib.rs", r"fn\s+calculate_sector_size[^{]*\{\s*" + NUM + r"\s*<<", 512),
    ("ht_min_size", MPQ + "builder.rs", r"\(file_count\s*\*\s*2\)\.max\(\s*" + NUM, 16),
    ("ht_load_factor", MPQ + "builder.rs", r"\(file_count\s*\*\s*" + NUM + r"\)\.max", 2),
    ("ptch_sig", MPQ + "patch/header.rs", r"PTCH_SIGNATURE\s*:\s*u32\s*=\s*" + NUM, 0x48435450),
    ("ptch_md5_sig", MPQ + "patch/header.rs", r"MD5_SIGNATURE\s*:\s*u32\s*=\s*" + NUM, 0x5f35444d),
    ("ptch_xfrm_sig", MPQ + "patch/header.rs", r"XFRM_SIGNATURE\s*:\s*u32\s*=\s*" + NUM, 0x4d524658),
    ("ptch_copy_magic", MPQ + "patch/header.rs", NUM + r"\s*=>\s*Ok\(PatchType::Copy\)", 0x59504f43),
    ("ptch_bsd0_magic", MPQ + "patch/header.rs", NUM + r"\s*=>\s*Ok\(PatchType::Bsd0\)", 0x30445342),
    ("ptch_md5_block", MPQ + "patch/header.rs", r"md5_block_size\s*!=\s*" + NUM, 40),
    ("ptch_bsdiff40", MPQ + "patch/apply.rs", r"signature\s*!=\s*" + NUM, 0x3034464649445342),
    ("wdt_w2t_clamp", WDT + "lib.rs", r"tile_x\.min\(\s*" + NUM + r"\s*\)", 63),
    ("wdt_version", WDT + "chunks/mod.rs", r"WDT_VERSION\s*:\s*u32\s*=\s*" + NUM, 18),
    ("wdt_map_size", WDT + "chunks/mod.rs", r"WDT_MAP_SIZE\s*:\s*usize\s*=\s*" + NUM, 64),
]


def default_upper():
    return [c - 32 if 97 <= c <= 122 else c for c in range(256)]


def default_lower():
    return [c + 32 if 65 <= c <= 90 else c for c in range(256)]


def main():
    report = {"missing": [], "values": {}}
    lines = ["(* GENERATED by tools/gen_consts.py from /repo sources - do not edit *)",
             "From Coq Require Import NArith List.", "Import ListNotations.", "Open Scope N_scope.", ""]
    cache = {}
    for name, rel, rx, default in SCALARS + EXTRA:
        if rel not in cache:
            cache[rel] = strip_comments(read(rel))
        m = re.search(rx, cache[rel], flags=re.S)
        if m:
            try:
                v = num(m.group(1))
            except ValueError:
                v = None
        else:
            v = None
        if v is None:
            report["missing"].append(name)
            v = default
        report["values"][name] = v
        lines.append("Definition %s : N := %d." % (name, v))
    import struct
    for name, rel, rx, default in FLOATS:
        if rel not in cache:
            cache[rel] = strip_comments(read(rel))
        m = re.search(rx, cache[rel], flags=re.S)
        v = None
        if m:
            try:
                v = float(m.group(1).replace("_", ""))
            except ValueError:
                v = None
        if v is None:
            report["missing"].append(name)
            v = default
        bits = struct.unpack("<I", struct.pack("<f", v))[0]
        report["values"][name] = bits
        lines.append("Definition %s : N := %d." % (name, bits))
    for name, rel, rx, n in ARRAYS:
        if rel not in cache:
            cache[rel] = strip_comments(read(rel))
        m = re.search(rx, cache[rel], flags=re.S)
        vals = None
        if m:
            try:
                vals = [num(t) for t in re.findall(NUM, m.group(1))]
                vals = [num(t) for t in re.split(r"\s*,\s*", m.group(1).strip().rstrip(",")) if t.strip()]
            except ValueError:
                vals = None
        if not vals or len(vals) != n:
            report["missing"].append(name)
            vals = default_upper() if name == "ascii_to_upper" else default_lower()
        lines.append("Definition %s : list N := [%s]." % (name, "; ".join(str(v) for v in vals)))
    text = "\n".join(lines) + "\n"
    out = os.path.normpath(OUT)
    old = None
    if os.path.exists(out):
        with open(out) as f:
            old = f.read()
    if old != text:
        with open(out, "w") as f:
            f.write(text)
    with open(os.path.join(os.path.dirname(out), "consts_report.json"), "w") as f:
        json.dump(report, f, indent=1, sort_keys=True)
    if report["missing"]:
        print("gen_consts: patterns not found (defaults used): " + ",".join(report["missing"]), file=sys.stderr)
    return 0


if __name__ == "__main__":
    sys.exit(main())
