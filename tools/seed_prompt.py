#!/usr/bin/env python3
"""prints the prompt given to a mutation sub-agent for one property (property text only, nothing from /verif)"""
import json, sys
pid = sys.argv[1]
n = sys.argv[2] if len(sys.argv) > 2 else "2"
p = [json.loads(l) for l in open('/verif/properties.jsonl') if json.loads(l)['id'] == pid][0]
print(f"""You are helping to evaluate a verification effort by planting realistic bugs.

Work ONLY inside the scratch git worktree /tmp/seed_{pid}/wt (a checkout of the Rust workspace wowemulation-dev/warcraft-rs) and write your results to /tmp/seed_{pid}/out/. Never read or write /repo or /verif. The machine is offline: always use `cargo ... --offline` with CARGO_NET_OFFLINE=true, and set CARGO_TARGET_DIR=/tmp/seed_{pid}/target (tip: `cp -r /repo/target /tmp/seed_{pid}/target` first is allowed as a read-only copy source and saves most of the dependency build time). Use at most 6 parallel jobs (`-j6`).

Here is a semantic property that the code base is supposed to satisfy:

id: {p['id']}
title: {p['title']}
statement: {p['statement']}
quantifier: {p['quantifier']['text']}
anchors (files): {', '.join(p['anchors']['files'])}
observe at: {', '.join(p['anchors'].get('observe_at') or [])}

Task: produce {n} DIFFERENT small source changes (mutations), each of which
 (1) breaks this property (a user relying on the statement would be wrong),
 (2) still compiles, and the EXISTING test suite of the affected crate(s) still passes with it (run `cargo test -p <crate> --offline` for each crate you touched, plus crates that depend on it if the change is in wow-mpq: storm-ffi and warcraft-rs), and
 (3) needs something specific to manifest - a particular input shape or size, a boundary value, a multi-step sequence of operations, a particular interleaving or fault point, or two cooperating sites that each look fine alone - NOT something ordinary use or the existing tests would expose at once. Think of plausible maintenance mistakes: an off-by-one at a boundary, a wrong constant in a rarely used branch, a dropped check, a changed tie-break, an optimisation that is wrong for one class of inputs, a mismatch introduced between writer and reader for one configuration.
Do not change test files, and do not touch documentation only. Each mutation should be a few lines.

For each mutation i = 1..{n} write into /tmp/seed_{pid}/out/m<i>/ :
 - patch.diff : `git diff` of the worktree for this mutation alone (relative to the clean checkout; apply-able with `git apply`),
 - a demonstration: a small Rust test file or program (demo.rs, plus a note where to place it, e.g. as <crate>/tests/demo_seed.rs, or an examples/ file) that FAILS (non-zero exit / failing assertion) with the mutation applied and PASSES on the clean checkout. Run it both ways yourself and record the commands and outcomes,
 - meta.json : {{"property": "{pid}", "summary": "...", "needs_to_manifest": "...", "files_changed": [...], "commands_run": [...], "existing_tests_pass_with_mutation": true/false, "demo_fails_with_mutation": true/false, "demo_passes_without": true/false}}.
Reset the worktree (`git checkout -- . && git clean -fd -e target`) between mutations so each patch.diff is independent. When done, leave the worktree clean, delete /tmp/seed_{pid}/target to free disk, and reply with a short summary of the mutations (what, where, how it manifests).""")
