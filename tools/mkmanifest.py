#!/usr/bin/env python3
"""Regenerates MANIFEST.json from the table below (claimed properties) + properties.jsonl."""
import json, os
V = os.path.dirname(os.path.dirname(os.path.abspath(__file__)))
CLAIMS = {
 "C04": dict(
  text="Coq theorems over the Gallina model of hash_string / crypt table / block cipher / byte wrappers: cipher inverse for every key and every byte length, spelling invariance, table and hash equal to the independently written reference algorithm, cipher equals the reference for every non-zero key. Model tied to the code by constants regenerated from the Rust sources on every run and by exhaustive differential execution (all names of length <=2 x 5 hash types, all 1280 table entries, all lengths 0..17) of the extracted model against the crate built from the working tree; Jenkins hashes compared with a reference lookup3 written from its description.",
  note="Trusted: Coq kernel + vm_compute, extraction (ExtrOcamlBasic), OCaml driver, gen_consts.py regexes, Rust harness. Reference algorithm = my transcription of the published MPQ hash/cipher and lookup3. Jenkins: model = code and code = reference are validated differentially (theorem impl-shape = lookup3 not yet proved). Key 0 (cipher is the identity here, not in StormLib) is excluded from the reference comparison and belongs to C02. No axioms.",
  tech="Coq proof (induction over word/byte lists, vm_compute over finite tables) + exhaustive differential correspondence"),
 "C03": dict(
  text="Theorems over the wrapper model for an arbitrary inner codec: stored form never longer than the input, tagged output is strictly shorter (so the reader's 'same length means raw' rule is sound), wrapper round trip relative to the codec contract, acceptance region of the default limit logic for all sizes up to 2^21, and the sparse decoder inverts every well-formed token stream (unbounded). Tied to the code by regenerated limit constants, byte-exact correspondence of the sparse codec, the wrapper and the limit decisions (boundary triples), and the compress->decompress oracle on the real codecs over nine compressibility classes.",
  note="partial: the half 'sparse_compress emits a well-formed token stream of its input' is validated (exhaustive zero-run sweep 0..800, boundary run lengths, random) but not proved; zlib/bzip2/LZMA/PKWare/Huffman/ADPCM internals are external crates (codec contract is a Section hypothesis, exercised by the oracle); wall-clock limits not modelled. Known finding: bzip2 of 2 MiB constant data exceeds the adaptive limit.",
  tech="Coq proof (wrapper/limit algebra by lia, sparse decoder by induction over tokens) + differential correspondence + implementation oracle"),
 "C08": dict(
  text="Theorems about the chain model for EVERY history of add/remove/set-priority/clear: the list is always sorted by priority; a stamped specification (fresh stamp per add/re-prioritisation) refines to the implementation's list and stays strictly ordered by (priority desc, stamp asc); lookup returns the holder that is best in that order (earliest added wins ties); absent names are not found; parallel construction equals sequential construction. Patch application: for an arbitrary digest function a successful apply implies base and result carry the declared digests (never unverified bytes), COPY yields exactly the payload, BSD0 yields exactly the declared size. Tied to the code by all histories of length <=2 (<=3 thorough) plus seeded longer ones on four real archives through the real PatchChain (sequential and parallel), and by the real apply_patch on well-formed and altered COPY/BSD0 patch files against the model (MD5 executable in Coq, checked against hashlib).",
  note="partial: archives inside the chain are abstracted to 'listed name -> content' (tie: C01) and names are ASCII; entries with FLAG_PATCH_FILE inside archives cannot be produced by the builder, so read_patched_file's selection of base/patches is not exercised (the applier is). MD5 in theorems is an arbitrary function; executable MD5 is validated against hashlib.",
  tech="Coq proof (invariants by induction over operation lists, refinement to a stamped spec) + bounded-exhaustive differential histories"),
 "C09": dict(
  text="Theorems over the model of extract_with_config for an arbitrary sequential read function: for every request list, thread count, batch size >= 1 and error-skipping mode both code paths (<=1000 and >1000 names) return exactly one slot per requested name in request order, each equal to the sequential read; with skipping a failing name affects only its own slot, without it the call fails as a whole; concat of mapped chunks equals the mapped list for every batch size; results do not depend on the execution order of index-tagged tasks. Tied to the code by running the real parallel interfaces over request lists of length 0..5001 (duplicates, missing names at chosen positions), threads 1..32, several batch sizes, with and without 16 busy threads, repeated, against sequential reads and against the extracted model's slot structure.",
  note="partial: the theorem covers task-granular scheduling under the isolation assumption (each task reads through its own handle); isolation itself, rayon's ordered collect and the memory model are runtime facts validated by repetition under contention, not proved. batch_size 0 (chunks(0) panics) and threads 0 with >5000 names are outside the quantifier.",
  tech="Coq proof (list algebra: chunks/concat/map, schedule independence) + repeated differential runs under contention"),
 "C11": dict(
  text="Coq model of the target computation (Unix std::path components/join/file_name as used by the CLI) with the theorem that for EVERY entry name, with or without path preservation, the target lies strictly beneath the output directory and consists only of plain component names; refutation witnesses for the code as found. Tied to the code by running the real binary built from the working tree on grammar-generated archives (plain and patch-chain branch, explicit and whole-archive) inside a sandbox whose whole tree (and an absolute escape directory) is snapshotted before and after; the set of created files must equal the model's predicted targets.",
  note="Lexical containment only: pre-existing symlinks in the output tree are outside the property's quantifier and the model. std::path semantics are transcribed by hand for Unix; Windows prefixes are not modelled. The model is of the repaired extraction_target function (fix: commit in /repo).",
  tech="Coq proof (induction over path components) + process-level differential check with file-system snapshots"),
 "C18": dict(
  text="tile<->world: Flocq binary32 model of both functions, theorem for all 64x64 tiles by a kernel-evaluated finite sweep, tied to the code by regenerated float constants and bit-exact exhaustive comparison on all 4096 tiles plus seeded float patterns. WDT: complete byte-level Coq model of writer and reader with the theorem read(write w) = Ok w for every well-formed map definition and byte-identical second write (generic theorems: chunk framing tiles the file, record codec and name-table round trips), tied by byte-exact writer and reader correspondence incl. mutated files. WDL: offset-table discipline checked on the real bytes with the extracted, proven chunk walk; content round trip and version conversion checked on the implementation.",
  note="Flocq brings the four classical real-number axioms (listed in the evidence) for the coordinate theorem only. WDL content codec and the version-conversion functions are validated on the implementation, not modelled. UTF-8 validity of names is outside the model. Objects the writer silently trims (MWMO on Cataclysm+ terrain maps, MVER != 18) are outside the well-formedness predicate.",
  tech="Coq proof (Flocq finite sweep; induction over chunk lists and record layouts) + byte-exact differential correspondence"),
}
props = [json.loads(l) for l in open(os.path.join(V, "properties.jsonl"))]
NA_REASON = "not yet built in this round (planned, see DESIGN.md section 5); no claim is made"
m = {"version": 1, "setup_cmd": "./setup.sh",
     "hooks": {"guard": "warcraft_rs_verif", "enable": "no source hooks exist: every function the checks drive is already pub; the guard name is reserved (RUSTFLAGS=\"--cfg warcraft_rs_verif\")",
               "baseline_off_cmd": "cd /repo && cargo test --workspace --no-fail-fast --offline", "source_commits": [], "add_only": True},
     "engines": [{"name": "coq-proof+correspondence", "path": "check", "serves_properties": sorted(CLAIMS),
                  "kind_free_text": "Coq 8.16.1 theorems about hand-written Gallina models (coq/), constants regenerated from /repo sources each run (tools/gen_consts.py), extracted OCaml model runner (ocaml/) executed differentially against the Rust implementation built from /repo's working tree (harness/)"}],
     "checks": [], "notes": "See DESIGN.md. Properties move from not_applicable to checks as their models, theorems and correspondence checks land.",
     "not_applicable": []}
for p in props:
    i = p["id"]
    if i in CLAIMS:
        c = CLAIMS[i]
        m["checks"].append({"property_id": i, "quick_cmd": "./check %s --tier quick" % i, "thorough_cmd": "./check %s --tier thorough" % i,
                            "evidence_file": "/verif/evidence/%s.json" % i, "replay_cmd_template": "./check %s --replay {path}" % i,
                            "engine": "coq-proof+correspondence",
                            "level_claimed": {"category": "proof", "text": c["text"], "design_ref": "DESIGN.md section 5, " + i},
                            "level_note": c["note"], "technique": c["tech"]})
    else:
        m["not_applicable"].append({"property_id": i, "reason": NA_REASON})
json.dump(m, open(os.path.join(V, "MANIFEST.json"), "w"), indent=1)
print("claimed:", sorted(CLAIMS))
