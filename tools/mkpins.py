#!/usr/bin/env python3
"""Regenerates coq/Pins/<prop>.v from coq/Props/<prop>.v: every theorem statement is restated
as the type of a definition whose body is the theorem, so that a statement can only change
together with its pin (the pins are compared with the committed ones by the hygiene step)."""
import re, sys
def main(prop):
    src = open("/verif/coq/Props/%s.v" % prop).read()
    src_nc = re.sub(r"\(\*.*?\*\)", "", src, flags=re.S)
    head = []
    for m in re.finditer(r"^((?:From \w+ Require Import|Open Scope|Import|Ltac Zify).*?\.)[ \t]*$", src_nc, flags=re.M | re.S):
        line = m.group(1)
        if line.startswith("From WR Require Import"):
            line = " ".join(line[:-1].split()) + " Props.%s." % prop
        if line not in head and line not in ("From Coq Require Import NArith List Bool Arith.", "Import ListNotations."):
            head.append(line)
    out = ["From Coq Require Import NArith List Bool Arith.", "Import ListNotations."] + head + ["", ""]
    k = 0
    for m in re.finditer(r"Theorem\s+(\w+)\s*:(.*?)\.\s*\nProof\.", src_nc, flags=re.S):
        k += 1
        out.append("Definition pin_%d : %s := %s." % (k, m.group(2).strip("\n").lstrip(), m.group(1)))
    open("/verif/coq/Pins/%s.v" % prop, "w").write("\n".join(out) + "\n")
    print(prop, k, "pins")
if __name__ == "__main__":
    for p in sys.argv[1:]:
        main(p)
