#!/bin/bash
# usage: regress_seeds.sh [Cxx ...]  -- applies every stored seeded change to /repo in turn, runs the quick check of its property, reverts;
# prints one line per change (DETECTED / MISSED / APPLY-FAILED). /repo must be clean and nothing else may use it meanwhile.
cd /verif
props="$@"; [ -z "$props" ] && props=$(ls seeded | sed 's/_m.*//' | sort -u)
for p in $props; do
  for d in $(ls -d seeded/${p}_m* | sort -V); do
    pf=$d/patch.diff; [ -f $d/patch_ported.diff ] && pf=$d/patch_ported.diff
    st=$(python3 -c "import json,sys; m=json.load(open('$d/meta.json')); print(m.get('status_after_repairs','') or '')" 2>/dev/null)
    ( cd /repo && git apply /verif/$pf 2>/dev/null ) || { echo "$d APPLY-FAILED ${st:0:60}"; continue; }
    out=$(./check $p --tier quick 2>&1 | tail -1)
    ( cd /repo && git checkout -- . )
    case "$out" in *VIOLATION*) echo "$d DETECTED";; *) echo "$d MISSED ${st:0:60}";; esac
  done
done
