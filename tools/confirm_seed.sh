#!/bin/bash
# usage: confirm_seed.sh <dir with patch.diff + demo.rs> <label>
# Confirms in a scratch worktree (outside /repo and /verif) that a seeded change compiles,
# keeps the existing tests of the touched crate green, and that the demo fails with it
# and passes without it.  Prints one JSON line.
set -u
D=$1; L=$2
WT=/tmp/confirm_$L/wt
export CARGO_NET_OFFLINE=true CARGO_TARGET_DIR=/tmp/confirm_target
rm -rf /tmp/confirm_$L; mkdir -p /tmp/confirm_$L
git -C /repo worktree add --detach $WT HEAD >/dev/null 2>&1 || { echo "{\"label\":\"$L\",\"error\":\"worktree\"}"; exit 1; }
cd $WT
F=$(grep -m1 '^+++ b/' $D/patch.diff | sed 's|^+++ b/||')
CR=$(echo "$F" | sed 's|/src/.*||')
PKG=$(grep -m1 '^name' $CR/Cargo.toml | sed 's/.*"\(.*\)"/\1/')
mkdir -p $CR/tests; cp $D/demo.rs $CR/tests/demo_seed.rs
# 1. clean tree: demo passes
timeout 3000 cargo test -p $PKG --offline --test demo_seed -j8 >/tmp/confirm_$L/demo_clean.log 2>&1; DC=$?
# 2. with the change
git apply $D/patch.diff; AP=$?
timeout 3000 cargo test -p $PKG --offline --test demo_seed -j8 >/tmp/confirm_$L/demo_mut.log 2>&1; DM=$?
rm -f $CR/tests/demo_seed.rs
DEPS=""
[ "$PKG" = "wow-mpq" ] && DEPS="-p storm-ffi -p warcraft-rs"
timeout 6000 cargo test -p $PKG $DEPS --offline -j8 >/tmp/confirm_$L/suite_mut.log 2>&1; ST=$?
cd /; git -C /repo worktree remove --force $WT >/dev/null 2>&1
echo "{\"label\":\"$L\",\"pkg\":\"$PKG\",\"apply\":$AP,\"demo_clean_exit\":$DC,\"demo_mut_exit\":$DM,\"suite_with_mutation_exit\":$ST}"
