#!/bin/sh
# usage: coqgoal.sh <file.v> <line>  -- shows the goal before <line> (dev helper)
f=$1; n=$2
head -n $((n-1)) "$f" > /tmp/_goal.v
echo "Show. Abort." >> /tmp/_goal.v
cd /verif/coq && coqc -Q . WR /tmp/_goal.v 2>&1 | tail -${3:-60}
