#!/bin/bash
# usage: try_seed.sh <patch.diff> <Cxx> [tier]  -- applies a seeded change to /repo, runs the check, reverts
P=$1; C=$2; T=${3:-quick}
cd /repo && git apply "$P" || { echo "APPLY FAILED"; exit 2; }
cd /verif && ./check $C --tier $T 2>&1 | grep -E "VIOLATION|KNOWN|-> " | cut -c1-300
cd /repo && git checkout -- . && git status --short | grep -v '^??' | head -3
