#!/usr/bin/env python3
"""Rewrites the theorem list of DESIGN.md section 0.2 (and the theorem count in 0.1) from coq/Props/*.v."""
import re, glob
lines=[]; total=0
for p in sorted(glob.glob("/verif/coq/Props/C*.v")):
    prop=p.split("/")[-1][:-2]
    names=re.findall(r"^Theorem\s+(\w+)", open(p).read(), flags=re.M)
    total+=len(names)
    lines.append("* **%s** (%d): %s" % (prop, len(names), ", ".join("`%s`" % n for n in names)))
d=open("/verif/DESIGN.md").read()
a=d.index("### 0.2 Theorems per property"); a=d.index("\n", a)+1
b=d.index("### 0.3 ")
d=d[:a]+"\n"+"\n".join(lines)+"\n\n"+d[b:]
d=re.sub(r"has \d+ property theorems in", "has %d property theorems in" % total, d)
open("/verif/DESIGN.md","w").write(d)
print(total, "theorems")
